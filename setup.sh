#!/bin/sh
# setup_cmd: build the overlay venv offline (z3-solver, cvc5, sympy, jsonschema from the
# wheelhouse; repository dependencies seen through a .pth onto /venv's site-packages).
set -e
cd "$(dirname "$0")"
if [ ! -x .venv/bin/python ] || ! .venv/bin/python -c "import z3, jsonschema, pandas, dags, jax" 2>/dev/null; then
  rm -rf .venv
  /venv/bin/python -m venv .venv
  PIP_NO_INDEX=1 .venv/bin/pip install -q --no-index --find-links /opt/veriftools/wheels z3-solver cvc5 sympy jsonschema
  echo "import site; site.addsitedir('/venv/lib/python3.12/site-packages')" > .venv/lib/python3.12/site-packages/_overlay.pth
fi
.venv/bin/python -c "import z3, jsonschema, pandas, dags, jax; print('pyvc venv ok: z3', z3.get_version_string())"
mkdir -p evidence out
