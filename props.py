"""Which contracts (and lemmas) constitute each property, plus the text that goes into evidence."""

COMMON_ASSUMPTIONS = [
    "floats are mathematical reals, ints unbounded (no rounding, no overflow; sizes < 2^31)",
    "jax.jit is the identity; XLA compilation is outside the model",
    "library contracts (pyvc/stubs) for jax.numpy / jax.ops / numpy are assumed (listed under trusted_base as used)",
    "pyvc itself (AST executor, stubs, VC generation) is trusted code; cross-checked by bounded re-runs, native replay and the mutant corpus",
    "natively executed libraries (dags, pandas, networkx, inspect, functools, dataclasses) are trusted as installed",
]

PROPS = {
    "C18": {
        "contracts": [
            "lcm.argmax.argmax",
            "lcm.argmax.segment_argmax",
            "lcm.discrete_problem._solve_discrete_problem_no_shocks",
            "C01.period-step",
        ],
        "families": {
            "quick": "argmax: ranks 1..2 x every axis argument (None, int, tuples in both orders) x {where+initial, initial, neither}; segment_argmax: trailing rank 0..1; no-shock reduction: ranks 1..3 x every choice-axis subset x segments on/off. All sizes, contents, masks, segmentations symbolic.",
            "thorough": "argmax: ranks 1..4 (the statement's bound) x every axis argument x {where+initial, initial, neither}; segment_argmax: trailing rank 0..2; no-shock reduction: ranks 1..4. Plus CPython differential on random small inputs.",
        },
        "not_decided": [
            "values recomputed with different rounding inside one JIT-compiled computation (the model gives every traced value one value)",
        ],
        "assumptions": COMMON_ASSUMPTIONS + ["argmax axes are non-negative axis numbers (as at every call site); data are > -inf when initial=-inf is passed"],
    },
    "C19": {
        "contracts": [
            "lcm.functools.allow_only_kwargs",
            "lcm.functools.allow_args",
            "lcm.functools.convert_kwargs_to_args",
            "lcm.functools.all_as_kwargs",
            "lcm.functools.all_as_args",
            "lcm.functools.get_union_of_arguments",
            "lcm.dispatchers._base_productmap",
            "lcm.dispatchers.productmap",
            "lcm.dispatchers.vmap_1d",
            "lcm.dispatchers.spacemap",
        ],
        "families": {
            "quick": "keyword wrappers: every signature with <= 3 parameters (positional-only prefix / positional-or-keyword / keyword-only suffix), every keyword order, every positional/keyword split; dispatchers: signatures with <= 3 parameters x every ordered subset of mapped names x put_dense_first x scalar/tuple/dict outputs (capped deterministic sample of 120-150 instances per dispatcher). Lengths and all values symbolic.",
            "thorough": "keyword wrappers: every signature with <= 5 parameters (the statement's bound), keyword orders capped at 24 per call shape; dispatchers: signatures with <= 4 parameters x every ordered subset x options (deterministic sample of <= 2000 instances per dispatcher). Plus CPython differential.",
        },
        "native_trials": 2,
        "not_decided": ["dispatchers over functions with exactly five parameters are covered for the keyword wrappers only (family bound 4 for the vmap-based dispatchers)"],
        "assumptions": COMMON_ASSUMPTIONS + ["the mapped function is pure and is applied to scalars (uninterpreted function of its bound arguments)", "jax.vmap contract: trace-like, out[i] = f(mapped arguments at i)"],
    },
    "C15": {
        "lean": True,
        "contracts": [
            "lcm.ndimage._compute_indices_and_weights",
            "lcm.ndimage.map_coordinates",
            "lcm.grid_helpers.get_linspace_coordinate",
            "lcm.grid_helpers.get_logspace_coordinate",
            "lcm.grid_helpers.linspace",
            "C15.linear-grid-roundtrip",
        ],
        "families": {
            "quick": "kernel: ranks 1..2 scalar coordinates and ranks 1..2 batched; per-axis cell and grid-coordinate contracts for all sizes/bounds/values (no structure parameter)",
            "thorough": "kernel: ranks 1..4 (the statement's bound) scalar coordinates, ranks 1..3 batched; plus CPython differential",
        },
        "not_decided": ["floating-point behaviour of floor at grid nodes of a logarithmic grid"],
        "assumptions": COMMON_ASSUMPTIONS + ["array extents >= 2 along interpolated axes (grids with one point are a C12 matter)"],
    },
    "C16": {
        "lean": True,
        "contracts": ["lcm.grids.LinspaceGrid", "lcm.grids.LogspaceGrid", "lcm.grids.DiscreteGrid", "lcm.grid_helpers.linspace"],
        "families": {
            "quick": "continuous: start/stop kinds {int, float, +inf, -inf, nan, non-numeric} x n_points kinds {int, non-numeric}; discrete: category classes with <= 2 fields of kinds {int, float, bool, str, missing} and non-dataclasses. Numeric values symbolic (all ints / reals).",
            "thorough": "continuous: start/stop kinds {int, float, bool, +inf, -inf, nan, non-numeric} x n_points kinds {int, bool, float, non-numeric}; discrete: <= 3 fields. Plus CPython differential.",
        },
        "not_decided": ["float32 representability (collapse of very close bounds, overflow of huge ones)", "category classes without any field (the statement does not determine them)"],
        "assumptions": COMMON_ASSUMPTIONS + ["symbolic float values are finite reals; +inf, -inf and nan are separate concrete cases", "ground instances of Real.exp_log, Real.log_exp, Real.exp_lt_exp, Real.log_lt_log (Mathlib) for the logarithmic scale"],
    },
    "C07": {
        "contracts": [
            "lcm.input_processing.create_params_template.create_params_template",
            "lcm.input_processing.process_model.process_model",
        ],
        "families": {
            "quick": "Skel-quick: 9 model skeletons (consumption-saving, retirement filter, two stochastic states with permuted dependency orders incl. _period, fully discrete, log + linear continuous states, period-dependent filter through an auxiliary function + two filters + two constraints, discrete choices only, two continuous choices, restricted + unrestricted discrete choices); shared parameter names across functions; all grid sizes/bounds, parameter values and user functions symbolic.",
            "thorough": "Skel-thorough: the 9 skeletons plus reversed declaration orders of states, choices and functions (32 skeletons).",
        },
        "not_decided": ["model structures outside the skeleton family", "'beta is the only discount factor' is decided by the period-step contract of C01"],
        "assumptions": COMMON_ASSUMPTIONS + ["user functions are pure, uninterpreted functions of their bound arguments"],
    },
    "C17": {
        "contracts": [
            "lcm.state_space.create_filter_mask",
            "lcm.state_space.create_combination_grid",
            "lcm.state_space.create_indexers_and_segments",
            "lcm.state_space.create_state_choice_space",
            "lcm.input_processing.process_model.process_model",
        ],
        "families": {
            "quick": "filter mask: every skeleton with filters (retirement filter; period-dependent filter through an auxiliary function + second filter; restricted + unrestricted choices) at the first and last period; combination grid: mask ranks 1..2 (+ two masks); indexers: (restricted states, restricted choices) in {(1,1),(1,2),(2,1)}. All grid sizes and mask contents symbolic.",
            "thorough": "all periods, reversed declaration orders; combination grid ranks 1..4; indexers up to (2,2) and without restricted choices.",
        },
        "not_decided": ["segment_ids = rank of the stored combination's state, and the state-choice indexer: bounded stand-in on sampled masks of extent <= 3 per axis (needs an inductive counting lemma that was not mechanised)"],
        "assumptions": COMMON_ASSUMPTIONS + ["np.repeat(arange(m), counts) and count_nonzero(axis) carry sound but incomplete contracts"],
    },
    "C01": {
        "contracts": [
            "lcm.solve_brute.solve",
            "C01.period-step",
            "lcm.model_functions.get_utility_and_feasibility_function",
            "lcm.discrete_problem._solve_discrete_problem_no_shocks",
            "lcm.dispatchers.spacemap",
            "lcm.dispatchers.productmap",
        ],
        "families": {
            "quick": "Skel-quick (9 skeletons) at the first and the last period",
            "thorough": "Skel-thorough (32 skeletons incl. reversed declaration orders) at every period",
        },
        "not_decided": ["independence from JIT compilation (jax.jit is the identity in the model)", "floating-point rounding"],
        "assumptions": COMMON_ASSUMPTIONS,
    },
    "C05": {
        "contracts": [
            "lcm.input_processing.process_model.process_model",
            "lcm.state_space.create_state_choice_space",
            "lcm.dispatchers.spacemap",
            "lcm.discrete_problem._determine_dense_discrete_choice_axes",
            "lcm.discrete_problem._solve_discrete_problem_no_shocks",
            "C01.period-step",
            "lcm.solve_brute.solve",
            "lcm.state_space.create_indexers_and_segments",
        ],
        "families": {
            "quick": "Skel-quick (10 skeletons incl. one reversed function order) at the first and last period; spacemap over signatures with <= 3 parameters",
            "thorough": "Skel-thorough (reversed declaration orders of states, choices and functions) at every period",
        },
        "not_decided": ["model structures outside the skeleton family"],
        "assumptions": COMMON_ASSUMPTIONS,
    },
    "C14": {
        "contracts": [
            "lcm.function_representation.get_function_representation",
            "lcm.function_representation._fail_if_interpolation_axes_are_not_last",
            "lcm.ndimage.map_coordinates",
            "lcm.ndimage._compute_indices_and_weights",
            "lcm.grid_helpers.get_linspace_coordinate",
            "lcm.grid_helpers.get_logspace_coordinate",
            "C15.linear-grid-roundtrip",
        ],
        "families": {
            "quick": "Space(2,2,2): 0..2 restricted states with an arbitrary indexer, 0..2 unrestricted discrete states, 0..2 continuous states (linear/log mix), input prefix 'next_' (and '' on one space); kernel ranks 1..2",
            "thorough": "Space(2,2,3): up to 3 continuous axes (the statement's bound), both prefixes, all linear/log mixes listed in the family; kernel ranks 1..4",
        },
        "not_decided": ["the coordinate function of logarithmic grids is used through an uninterpreted contract (its node/monotonicity clauses are not yet discharged under C15)"],
        "assumptions": COMMON_ASSUMPTIONS + ["indexer entries of the evaluated labels are valid positions (feasible states)"],
    },
    "C11": {
        "lean": True,
        "contracts": [
            "C11.affine-utility-step",
            "C11.linear-expectation",
            "C11.beta-zero",
            "C11.horizon-independence",
            "lcm.solve_brute.solve",
            "lcm.model_functions.get_utility_and_feasibility_function",
            "C01.period-step",
        ],
        "families": {
            "quick": "lemmas: arbitrary (uninterpreted) choice sets, utilities, continuation values, a > 0, b, beta, horizons; code-facing contracts: solve loop for every number of periods, utility-and-feasibility function and period step on Skel-quick",
            "thorough": "same lemmas; code-facing contracts on Skel-thorough",
        },
        "not_decided": ["rounding", "the laws are corollaries: lemmas over the Bellman operator (all inputs) composed with C01's contracts (per skeleton); interpolation of an affinely transformed array is covered through the linear-expectation lemma only for weights summing to one (multilinear weights do)"],
        "assumptions": COMMON_ASSUMPTIONS + ["rows of every transition array sum to one (precondition of the affine law)", "the feasible set of every state is non-empty"],
    },
    "C12": {
        "contracts": [
            "lcm.user_model.Model",
            "C12.rejected-when-functions-are-created",
            "C12.accepted-specifications-solve",
            "lcm.grids.LinspaceGrid",
            "lcm.grids.LogspaceGrid",
            "lcm.grids.DiscreteGrid",
        ],
        "families": {
            "quick": "13 rule cases on the consumption-saving skeleton (n_periods symbolic: every integer), 3 late-rejection skeletons, every skeleton of Skel-quick + 3 known-finding skeletons for 'accepted => solves'; grid families of C16",
            "thorough": "same with Skel-thorough and the thorough grid families",
        },
        "not_decided": ["'accepted => simulates' is decided under C02/C13 for the skeletons covered there", "combinations of several rule violations at once (each rule is checked on its own)"],
        "assumptions": COMMON_ASSUMPTIONS + ["accepted => solves is proved under the hypothesis that the filters leave every period at least one admissible (restricted state, restricted choice) combination; the opposite case is rejected with a ValueError when the spaces are created (fix c50f42d, decided by the rule instance filter-admitting-no-combination for one structure)"],
    },
    "C02": {
        "contracts": ["C02.decisions", "lcm.argmax.argmax", "lcm.argmax.segment_argmax", "lcm.model_functions.get_utility_and_feasibility_function", "lcm.dispatchers.spacemap", "lcm.dispatchers.vmap_1d"],
        "families": {"quick": "Skel-quick, every period, any number of agents, initial states on or off the grid, arbitrary value arrays", "thorough": "Skel-thorough + reversed key order of initial_states"},
        "not_decided": ["floating-point tolerance (vacuous over the reals)", "JIT compilation"],
        "assumptions": COMMON_ASSUMPTIONS + ["every restricted-state label combination admits a filter-passing choice in every period, and every agent has a feasible grid choice with a finite objective (supported inputs)", "user functions act elementwise on arrays"],
    },
    "C03": {
        "contracts": ["C03.law-of-motion", "C13.panel", "lcm.input_processing.process_model.process_model"],
        "families": {"quick": "Skel-quick, all consecutive period pairs, any number of agents", "thorough": "Skel-thorough + reversed key order"},
        "not_decided": ["'positive probability' rests on the assumed contract of jax.random.choice"],
        "assumptions": COMMON_ASSUMPTIONS + ["user functions act elementwise on arrays", "jax.random.choice returns a label of positive probability (assumed PRNG contract)"],
    },
    "C13": {
        "contracts": ["C13.panel", "C13.targets", "C03.law-of-motion", "lcm.dispatchers.vmap_1d"],
        "families": {"quick": "Skel-quick (n_periods 2..3), any number of agents; additional targets: every auxiliary function, utility, constraints and deterministic transitions of each skeleton", "thorough": "Skel-thorough"},
        "not_decided": ["n_periods beyond the skeletons' horizons (the panel assembly is unrolled per skeleton)"],
        "assumptions": COMMON_ASSUMPTIONS + ["pandas.DataFrame / MultiIndex.from_product contracts (assumed)"],
    },
    "C04": {
        "contracts": ["C04.key-discipline", "C03.law-of-motion", "lcm.input_processing.process_model.process_model"],
        "families": {"quick": "skeletons with stochastic states (two stochastic states with permuted dependency orders incl. _period; one stochastic state + two continuous choices), every period, any number of agents", "thorough": "same + permuted declaration orders"},
        "not_decided": ["frequencies match the transition rows, independence across agents/periods/variables, zero-probability labels never drawn: statistical consequences of the PRNG contract, which is assumed"],
        "assumptions": COMMON_ASSUMPTIONS + ["PRNG contract: keys form a derivation tree; draws from distinct keys are independent; choice(key, a, p) returns a[j] with probability p[j]"],
        "level_text": "Contracts decide the key discipline (no key used twice, one key per agent, variable and period), the routing of labels and probability rows, and seed-independence of period 0, for all numbers of agents. The distributional claims rest on the assumed PRNG contract and are not decided.",
    },
    "C06": {
        "contracts": ["C06.solve-and-simulate-path", "C02.decisions", "C01.period-step", "lcm.solve_brute.solve", "lcm.model_functions.get_utility_and_feasibility_function"],
        "families": {"quick": "Skel-quick", "thorough": "Skel-thorough"},
        "not_decided": ["the equality 'reported value = solved value at on-grid states' is the composition of C02.decisions (value = max of the period objective over the feasible grid choices, with V_{t+1} = element t+1 of the list) and C01.period-step (V_t[s] = the same max): both are proved against the same per-period objective function; the composition itself is argued, not a separate VC"],
        "assumptions": COMMON_ASSUMPTIONS,
    },
    "C08": {
        "contracts": ["C02.decisions", "C03.law-of-motion", "C13.panel", "C08.permutation-subset-duplication", "lcm.dispatchers.vmap_1d", "lcm.dispatchers.spacemap", "lcm.argmax.argmax", "lcm.argmax.segment_argmax"],
        "families": {"quick": "Skel-quick; any number of agents, any batch of initial states", "thorough": "Skel-thorough + reversed key order of initial_states"},
        "not_decided": ["the permutation / subset / duplication statements themselves are checked by a bounded stand-in (sampled batches of <= 3 agents on the real code); the deductive part is that every proved clause about row (t, i) of the panel mentions agent i's own row only (decisions, value, next states), for every batch, and that ties are broken by position within the agent's own rows (C18)"],
        "assumptions": COMMON_ASSUMPTIONS + ["every agent has at least one filter-passing choice combination"],
        "level_text": "Agent-local postconditions (C02/C03/C13 clauses quantify over one agent's row and mention no other agent) are proved for all batch sizes and contents on skeletons without filter-restricted choices; the relational statements (permutation, subset, duplication, key order) are exercised by a bounded stand-in that is not counted as proved.",
    },
    "C09": {
        "contracts": ["C09.frame", "lcm.functools.get_union_of_arguments", "lcm.input_processing.create_params_template.create_params_template", "lcm.input_processing.process_model.process_model"],
        "hash_seeds": {"contracts": ["lcm.model_functions.get_utility_and_feasibility_function", "C01.period-step", "C04.key-discipline"], "seeds": [1, 2], "seeds_thorough": [1, 2, 3, 4, 5]},
        "families": {"quick": "Skel-quick: frame conditions over get_lcm_function and repeated, interleaved solve calls with two params objects; the utility-and-feasibility, period-step and key-discipline contracts re-proved in processes with PYTHONHASHSEED 1 and 2 plus up to two seeds chosen so that every name set of the family is iterated in two orders; the PRNG key term of every stochastic transition and period must be the same under every hash seed", "thorough": "Skel-thorough; PYTHONHASHSEED 1..5"},
        "not_decided": ["JIT/XLA cache behaviour and bit-equality across processes (outside the model)", "stores performed inside natively executed libraries (dags, pandas) are not observed"],
        "assumptions": COMMON_ASSUMPTIONS + ["library contracts are pure functions of their arguments"],
    },
    "C10": {
        "contracts": ["C01.period-step", "lcm.model_functions.get_utility_and_feasibility_function", "lcm.input_processing.process_model.process_model", "lcm.discrete_problem._determine_dense_discrete_choice_axes", "lcm.dispatchers.spacemap", "lcm.dispatchers._base_productmap", "lcm.functools.convert_kwargs_to_args", "lcm.state_space.create_state_choice_space"],
        "families": {"quick": "Skel-quick incl. one reversed function order and the pair retirement-filter / retirement-constraint (the same discrete restriction written both ways)", "thorough": "Skel-thorough: every skeleton also with reversed declaration orders of states, choices and functions"},
        "not_decided": ["renaming of variables (names are opaque strings to every function under contract; not exercised separately)", "an always-true filter or constraint: corollary of the Bellman specification (the feasible set is defined by the conjunction)"],
        "assumptions": COMMON_ASSUMPTIONS,
        "level_text": "Every rewriting is decided through the specification: the period value is proved equal to the Bellman maximum over the set of grid combinations passing all filters and constraints, with variables bound by name and axes in the documented layout, for each skeleton AND its rewritten variants; equal specifications then give equal values.",
    },
    "C20": {
        "lean": True,
        "contracts": ["lcm.discrete_problem._segment_logsumexp", "lcm.discrete_problem._calculate_emax_extreme_value_shocks"],
        "families": {"quick": "segment form: trailing rank 0..1, all sizes and segmentations with non-empty segments; axis form: ranks 1..2 x every choice-axis subset x segments on/off", "thorough": "trailing rank 0..2; ranks 1..3"},
        "not_decided": ["finiteness in floating-point arithmetic for extreme value/scale", "the limit s -> 0 beyond the bound max <= result <= max + s log n", "shift equivariance (result + c for values + c) is not stated as a separate obligation; it follows from the identity", "the axis form is checked up to the trusted jax.scipy.special.logsumexp (how it is called: argument values/scale, exactly the dense choice axes, result multiplied by scale)"],
        "assumptions": COMMON_ASSUMPTIONS + ["finite sums over symbolic extents are uninterpreted; used lemma schemas (premises discharged as obligations): a sum of non-negative terms bounds each term, a sum of terms <= 1 is at most the number of terms, sum_j c x_j = c sum_j x_j", "exp/log facts on occurring terms: exp > 0, exp(x) <= 1 for x <= 0, exp(x - m) = exp(x) exp(-m), log(exp t) = t, log(xy) = log x + log y, log monotone"],
        "level_text": "Contracts on the two real functions: the stability structure (every exponent argument <= 0, one per segment = 0), the bounds and the log-sum-exp identity are VCs over uninterpreted finite sums with explicitly listed, assumed lemma schemas whose premises are discharged; the axis form is plumbing around the trusted library logsumexp.",
    },
}


LEVEL_TEXT = {
    "C01": "Proof, modular. (1) `solve`: inductive invariant of the backward loop for EVERY number of periods (V[T-1] = E(CCV(none)), V[t] = E_t(CCV_t(V[t+1])), chronological list). (2) Period step of the real code (solve_continuous_problem + discrete problem) against the Bellman operator written from the statement, per model skeleton and period, for all grid sizes/bounds, parameters, value arrays and uninterpreted user functions: layout, value >= objective of every combination passing all filters and constraints, right helper objects (V of t+1, indexer of t+1, params); attained / -inf clauses deductive for skeletons without filter-restricted variables, bounded stand-in otherwise. (3) `get_utility_and_feasibility_function` = utility + beta * sum of weights * interpolated V' with exact discrete lookups. Interpolation kernel, coordinates and grids enter through their own contracts (C15, C16). JIT-independence is not decided.",
    "C02": "Proof for skeletons without filter-restricted choices and for two with them (retirement-filter, two-restricted-states-crossed-filters; segment_argmax and create_choice_segments used through their contracts): the real `simulate`, for any number of agents, on- and off-grid states, arbitrary value arrays, every period (cut point at the period loop): reported choices are grid values, pass filters and constraints, the reported value is the objective of the reported choices, no feasible grid choice is better, period t reads V[t+1]. The other two skeletons with filter-restricted choices (with a dense discrete choice / two period-dependent filters): bounded stand-in (sampled native runs), not counted as proved.",
    "C03": "Proof: period-0 rows are the initial states; period t+1 starts from the outcome of period t, which equals the model's transition functions at the same agent's period-t row (own parameters only); a stochastic next state is a label of the state's grid with positive probability in the row selected by the agent's dependency labels (the latter from the assumed PRNG contract). All agents counts; skeleton family incl. three with filter-restricted choices (create_choice_segments used through its contract); one skeleton bounded.",
    "C06": "Proof of the path statement (solve function called once with params, period t reads element t+1, entry-point wiring, one generated objective per period shared by solver and policy) plus C01/C02 clauses against the same per-period objective; the value equality at on-grid states is their argued composition.",
    "C07": "Proof per skeleton: template keys, entries = free arguments, shock shapes in signature order; every processed function receives exactly the values stored under its own name (shared parameter names across functions are distinct symbols); weights = shock row at the dependency labels in signature order.",
    "C11": "Lemmas over the Bellman operator for arbitrary choice sets (affine step and base, linear expectation, beta = 0, horizon independence; the affine law of a finite maximum also in Lean) + the code-facing contracts of C01 (single discount step, no continuation in the last period, expectation as weighted sum).",
    "C12": "Proof: Model(...) raises ModelInitilizationError iff a documented rule is broken (13 rule cases; every integer n_periods), late rules raise ValueError in get_lcm_function, and every skeleton that is accepted is solved symbolically without any reachable exception and with every library side condition discharged. Three accepted-but-failing specifications are recorded known findings.",
    "C13": "Proof: index = period-major product, columns and lengths, _period, row (t,i) holds entry i of what period t computed and ran on, targets are evaluated row-wise and equal the model function at the row; all agents counts; skeleton family (one restricted-choice skeleton bounded).",
    "C14": "Proof: exact lookup through labels/indexer + multilinear interpolation at the grid coordinates for Space(2,2,3) with linear/log mixes, both prefixes, reversed info mappings; node reproduction by composition with the kernel and coordinate contracts (C15).",
    "C15": "Proof for all inputs: per-axis cell and weights; kernel = multilinear blend incl. linear continuation for ranks 1..4 (the statement's bound) scalar and batched; node reproduction; linear and logarithmic grid coordinates (node index, strict monotonicity) and the linear round trip. exp/log facts as ground instances of Mathlib lemmas (general forms checked by Lean in the thorough tier).",
    "C16": "Proof over all kind combinations of start/stop/n_points (symbolic ints/reals; +inf, -inf, nan, bool, non-numeric as separate cases): reject with GridInitializationError or materialise exactly as specified (linear / log scale); discrete grids accepted iff dataclass with values 0,1,2,... and array form = codes.",
    "C17": "Proof: filter mask = conjunction of filters on the product of restricted grids in canonical order; stored rows = True positions in row-major order, each once; state indexer = order isomorphism onto [0, #feasible states) and -1 elsewhere; space layout. Segment ids / state-choice indexer: bounded stand-in + two assumed counting lemmas.",
    "C18": "Proof for all sizes, contents, masks, ties: argmax (ranks 1..4 x every axis argument x where/initial), segment_argmax, no-shock reduction (max over choice axes and segments), and the period step that wires them. The JIT-recomputation clause is not decided.",
    "C19": "Proof, complete over the signature families: keyword wrappers for every signature with <= 5 parameters (quick: 3), every keyword order and positional/keyword split, rejections; dispatchers over signatures with <= 4 parameters, every ordered subset of mapped names, scalar / tuple / dict / array-valued outputs.",
    "C20": "Proof over uninterpreted finite sums with listed lemma schemas (premises discharged; general forms checked by Lean): stability structure of the segment log-sum-exp, bounds, identity log sum exp; axis form = scale * logsumexp(values/scale) over exactly the dense choice axes (library logsumexp trusted).",
    "C05": "Proof per skeleton (and reversed declaration orders in the thorough tier): canonical variable order, storage of dense and restricted variables, axis names, value-array axes and lengths, chronological list for every number of periods.",
    "C09": "Proof of frame conditions by executor-level store tracking (no store into the model, user functions, params, module state, default arguments, per-period lists; model and params identical afterwards) over get_lcm_function and repeated interleaved solve calls; objective, period-step and key-assignment contracts re-proved in processes with other PYTHONHASHSEED values.",
}
for _p, _t in LEVEL_TEXT.items():
    PROPS[_p].setdefault("level_text", _t)
