"""Generate seeded/INDEX.md from the meta.json files."""
import glob
import json
import os

rows = []
for f in sorted(glob.glob("/verif/seeded/*/meta.json")):
    m = json.load(open(f))
    notes = ""
    nf = os.path.join(os.path.dirname(f), "notes.md")
    det = m.get("detection_by_checks", {})
    caught = [p for p, d in det.items() if d.get("exit") == 1]
    obl = []
    for p, d in det.items():
        obl += [o.split("[")[0] for o in d.get("failed_obligations", [])]
    obl = sorted(set(obl))[:4]
    c = m.get("confirmed_by_me", {})
    rows.append((m["id"], m["breaks_property"], f"{c.get('demo_clean_exit')}→{c.get('demo_patched_exit')}", c.get("tests_with_patch"), ", ".join(caught) or "MISSED", "; ".join(obl)))
with open("/verif/seeded/INDEX.md", "w") as fh:
    fh.write("# Independent seeded changes\n\nEach directory holds patch.diff, demo.py, notes.md (by the sub-agent) and meta.json (what was confirmed and which checks catch it).\n`demo` = exit status of demo.py on the clean tree → with the patch; `tests` = test-suite outcome with the patch (baseline: 3 failed, 318 passed).\n\n")
    fh.write("| seed | property | demo | tests | caught by quick check of | failed obligations (first few) |\n|---|---|---|---|---|---|\n")
    for r in rows:
        fh.write("| " + " | ".join(str(x) for x in r) + " |\n")
print(len(rows), "seeds indexed;", sum(1 for r in rows if r[4] == "MISSED"), "missed")
