#!/bin/sh
# tools/mut.sh <file-relative-to-src/lcm> <python-expr-old> <new> -- <check args>   : run a check on a mutated scratch copy
# usage: tools/mut.sh PROP file 'old' 'new'
set -e
PROP=$1; FILE=$2; OLD=$3; NEW=$4
D=$(mktemp -d /tmp/mut.XXXXXX)
cp -r /repo/src $D/src
python3 - "$D/src/lcm/$FILE" "$OLD" "$NEW" <<'PY'
import sys
p,old,new=sys.argv[1:4]
s=open(p).read()
assert old in s, "pattern not found"
open(p,'w').write(s.replace(old,new,1))
PY
cd /verif
PYVC_REPO_SRC=$D/src ./check $PROP --tier ${TIER:-quick} 2>&1 | cut -c1-260 | tail -${TAIL:-6}
echo "exit=$?"
rm -rf $D
