# debugging aid (not used by any registered command): ok/skip/fail counts of native trials per contract instance
import sys
sys.path.insert(0,'/verif')
import contracts
from pyvc.contract import REGISTRY
from pyvc.run import inst_label, native_trial, REPO_SRC
from pyvc.exec import World
from pyvc.native import NativeBackend
con=REGISTRY[sys.argv[1]]
w=World(REPO_SRC); nb=NativeBackend(REPO_SRC)
for inst in con.instances('quick'):
    c={}
    for t in range(int(sys.argv[2])):
        st,k=native_trial(w,con,inst,nb,sizes=None,seed=t)
        c[st]=c.get(st,0)+1
    print(inst_label(inst), c, flush=True)
