# debugging aid (not used by any registered command): greedy search for hypotheses that slow an otherwise instant proof down
import sys, time, os
sys.path.insert(0, '/verif')
os.environ['PYVC_FULL_SIM'] = '1'
import z3
import contracts
from pyvc.contract import REGISTRY
from pyvc.run import inst_label, _run_paths, REPO_SRC
from pyvc.exec import World
from pyvc import vc
label = sys.argv[1]; want = sys.argv[2]
con = REGISTRY['C02.decisions']
inst = [x for x in con.instances('quick') if inst_label(x) == label][0]
ctxs, k = _run_paths(World(REPO_SRC), con, inst, 'sym')
ctx = ctxs[0]
ob = [o for o in ctx.obls if o.name == want][0]
hy = ctx.hyps[: ob.nhyps]
tags = ctx.hyp_tags[: ob.nhyps]
def attempt(hs, mbqi, tmo=8000):
    s = z3.Solver(); s.set('timeout', tmo)
    if not mbqi: s.set('smt.mbqi', False)
    for h in hs: s.add(h)
    s.add(z3.Not(ob.goal))
    t=time.time(); r = s.check(); return str(r), round(time.time()-t,2)
rel = vc.relevant(hy, ob.goal)
print('all', len(hy), attempt(hy, False), attempt(hy, True))
print('rel', len(rel), attempt(rel, False), attempt(rel, True))
need = [h for h in hy if ('segargmax' in str(h)[:4000] and '.row' in str(h)) or 'argmax!31(argmax!31.b0) >= 0' in str(h) or str(h).startswith(('0 ==','1 ==','2 ==')) or 'agent0_0' in str(h)[:3000]]
print('need', len(need), attempt(need, False), attempt(need, True))
# greedy: add hyps to `need` one by one and see when it breaks
cur = list(need)
for h, tg in zip(hy, tags):
    if any(h.eq(x) for x in cur): continue
    r = attempt(cur + [h], False, 3000)
    if r[0] != 'unsat':
        print('BREAKS with', r[1], tg, str(h)[:200].replace('\n',' ')); continue
        print('BREAKS with', tg, str(h)[:300].replace('\n',' '), r)
    else:
        cur.append(h)
print('final', len(cur), attempt(cur, False))
