# debugging aid (not used by any registered command): per-obligation status and time of one C02.decisions instance; adapt the contract id
import sys, time, os
sys.path.insert(0, '/verif')
os.environ['PYVC_FULL_SIM'] = '1'
import contracts
from pyvc.contract import REGISTRY
from pyvc.run import inst_label
from pyvc.exec import World
from pyvc.run import _run_paths, REPO_SRC
from pyvc import vc
label = sys.argv[1]
con = REGISTRY['C02.decisions']
insts = con.instances('quick')
inst = [x for x in insts if inst_label(x) == label][0]
w = World(REPO_SRC)
t0 = time.time()
ctxs, k = _run_paths(w, con, inst, 'sym')
print('paths', len(ctxs), 'explore', round(time.time() - t0, 1), flush=True)
for pi, ctx in enumerate(ctxs):
    print('path', pi, 'hyps', len(ctx.hyps), 'obls', len(ctx.obls), flush=True)
    for ob in ctx.obls:
        t1 = time.time()
        r = vc.discharge(ctx.hyps[: ob.nhyps], ob.goal)
        print(f'  {ob.name[:90]:90s} {r.status:9s} {r.backend:22s} {time.time()-t1:6.1f}', flush=True)
