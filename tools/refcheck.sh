#!/bin/sh
# tools/refcheck.sh <patch.diff> [<patch.diff> ...] : all 20 quick checks against a scratch copy of /repo with the
# (behaviour-preserving) patches applied; every check must exit 0 -- anything else is a false alarm of the machinery
D=$(mktemp -d /tmp/refchk.XXXXXX)
cp -r /repo/src $D/src
( cd $D && git init -q . ) 
for P in "$@"; do
  ( cd $D && git apply --include='src/*' "$P" ) || { echo "patch $P does not apply"; rm -rf $D; exit 9; }
done
cd /verif
BAD=0
for P in ${PROPS:-C18 C19 C15 C16 C14 C17 C07 C20 C11 C12 C05 C01 C10 C13 C03 C02 C04 C06 C08 C09}; do
  PYVC_REPO_SRC=$D/src ./check $P --tier ${TIER:-quick} > $D/out.$P 2>&1
  E=$?
  echo "[$P] exit=$E $(grep -c '^VIOLATION' $D/out.$P) violations, $(grep -c '^UNDECIDED' $D/out.$P) undecided, $(grep -c '^CHECKER-ERROR' $D/out.$P) errors"
  if [ $E -ne 0 ]; then
    BAD=1
    grep -A1 '^VIOLATION\|^UNDECIDED\|^CHECKER-ERROR' $D/out.$P | sed 's/replay=[^ ]* //' | cut -c1-400 | head -${NV:-6}
  fi
done
rm -rf $D
exit $BAD
