"""Regenerate MANIFEST.json from props.py (claimed checks) and properties.jsonl (not_applicable rest)."""
import json
import os
import sys

ROOT = os.path.dirname(os.path.dirname(os.path.abspath(__file__)))
sys.path.insert(0, ROOT)
from props import PROPS  # noqa: E402

NA_REASONS = {}
try:
    from props import NOT_APPLICABLE  # noqa: E402

    NA_REASONS = NOT_APPLICABLE
except ImportError:
    pass

props = [json.loads(l) for l in open(os.path.join(ROOT, "properties.jsonl"))]
repo_commits = os.popen("git -C /repo log --format=%h 65e943e..HEAD 2>/dev/null").read().split()
checks = []
for p in props:
    pid = p["id"]
    if pid not in PROPS or not PROPS[pid].get("claimed", True):
        continue
    s = PROPS[pid]
    checks.append(
        {
            "property_id": pid,
            "quick_cmd": f"./check {pid} --tier quick",
            "thorough_cmd": f"./check {pid} --tier thorough",
            "evidence_file": f"evidence/{pid}.json",
            "replay_cmd_template": "./check replay {path}",
            "engine": "pyvc",
            "level_claimed": {
                "category": "proof",
                "text": s.get("level_text", "Contracts on the real functions; every VC generated from the working tree's AST is discharged by z3/cvc5 for all array sizes and contents at each structure instance of the stated families."),
                "design_ref": s.get("design_ref", "DESIGN.md sections 6 (plan) and 12.3 (as built)"),
            },
            "level_note": s.get("level_note", "Trusted: library contracts for jax/numpy/pandas (pyvc/stubs), reals for floats, jit = identity, pyvc itself, natively run dags/pandas; " + "; ".join(a for a in s.get("assumptions", [])[5:]) + ". Not decided: " + "; ".join(s.get("not_decided", [])) + ". Bounded stand-in clauses are listed in the evidence and never counted as proved."),
            "technique": s.get("technique", "contract-based deductive verification: sidecar contracts, VCs generated from the Python AST by symbolic execution, discharged by z3/cvc5; bounded re-runs + native replay only for counterexamples"),
        }
    )
claimed = {c["property_id"] for c in checks}
na = [
    {"property_id": p["id"], "reason": NA_REASONS.get(p["id"], "not yet built (build in progress; DESIGN.md section 10 gives the order)")}
    for p in props
    if p["id"] not in claimed
]
m = {
    "version": 1,
    "setup_cmd": "./setup.sh",
    "hooks": {
        "guard": "OPENSOURCEECONOMICS_LCM_VERIF",
        "enable": "none: contracts are sidecar files under /verif/contracts; /repo carries no instrumentation, only unguarded 'fix:' commits",
        "baseline_off_cmd": "cd /repo && /venv/bin/python -m pytest -ra -q -p no:cacheprovider --timeout=900 --continue-on-collection-errors",
        "source_commits": [],
        "add_only": True,
    },
    "engines": [
        {
            "name": "pyvc",
            "path": "pyvc/",
            "serves_properties": sorted(claimed),
            "kind_free_text": "modular symbolic executor over the Python AST of /repo/src/lcm (re-read on every run) + sidecar contracts (contracts/) -> verification conditions -> z3 5.1 / cvc5 / z3 4.8.12; bounded quantifier-free re-runs and native replay for counterexamples",
        }
    ],
    "checks": checks,
    "notes": "See DESIGN.md. Exit codes: 0 held, 1 violation (VIOLATION line + replay file), 2 undecided only, 3 checker error. Repairs of genuine defects are unguarded 'fix:' commits in /repo: " + ", ".join(repo_commits),
    "not_applicable": na,
}
json.dump(m, open(os.path.join(ROOT, "MANIFEST.json"), "w"), indent=1)
try:
    import jsonschema

    jsonschema.validate(m, json.load(open("/root/.vp/MANIFEST.schema.json")))
    print("MANIFEST.json valid;", len(checks), "checks,", len(na), "not_applicable")
except ImportError:
    print("written (jsonschema not available)")
