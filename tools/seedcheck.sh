#!/bin/sh
# tools/seedcheck.sh <patch.diff> <PROP> [<PROP> ...] : run checks against a scratch copy of /repo with the patch applied
PATCH=$1; shift
D=$(mktemp -d /tmp/seedchk.XXXXXX)
cp -r /repo/src $D/src
( cd $D && git init -q . && git apply --include='src/*' "$PATCH" ) || { echo "patch does not apply"; rm -rf $D; exit 9; }
cd /verif
for P in "$@"; do
  PYVC_REPO_SRC=$D/src ./check $P --tier ${TIER:-quick} > $D/out.$P 2>&1
  echo "[$P] exit=$? $(grep -c '^VIOLATION' $D/out.$P) violations, $(grep -c '^UNDECIDED' $D/out.$P) undecided, $(grep -c '^CHECKER-ERROR' $D/out.$P) errors"
  grep '^VIOLATION' $D/out.$P | sed 's/replay=[^ ]* //' | cut -c1-220 | head -${NV:-3}
  grep '^UNDECIDED\|^CHECKER-ERROR' $D/out.$P | cut -c1-250 | head -2
done
rm -rf $D
