#!/bin/sh
# tools/verify_seed.sh <seed-dir> : confirm a seeded change in a scratch worktree of /repo:
#   demo passes on the clean tree, fails with the patch; the test-suite outcome is unchanged with the patch.
SD=$1; ID=$(basename $SD)
WT=/tmp/vw/$ID
mkdir -p /tmp/vw; rm -rf $WT
git -C /repo worktree add -q --detach $WT HEAD || exit 9
OUT=$SD/verify.log; : > $OUT
cd $WT
PYTHONPATH=$WT/src /venv/bin/python $SD/demo.py >/dev/null 2>&1; echo "demo_clean_exit=$?" >> $OUT
if git apply $SD/patch.diff 2>>$OUT; then echo "patch_applies=yes" >> $OUT; else echo "patch_applies=no" >> $OUT; fi
PYTHONPATH=$WT/src /venv/bin/python $SD/demo.py >/dev/null 2>&1; echo "demo_patched_exit=$?" >> $OUT
PYTHONPATH=$WT/src /venv/bin/python -m pytest -q -p no:cacheprovider --timeout=900 --continue-on-collection-errors 2>&1 | tail -5 | grep -E "passed|failed|FAILED" >> $OUT
cd /; git -C /repo worktree remove --force $WT
cat $OUT | tr '\n' ' '; echo
