"""tools/store_seed.py <seed-dir> <PROP> [<extra PROP> ...]
Copy a sub-agent's seeded change into /verif/seeded/<id>/ and record what was confirmed and which checks catch it.
Expects <seed-dir>/verify.log from tools/verify_seed.sh; runs the property's quick check against a scratch copy."""
import json
import os
import re
import shutil
import subprocess
import sys
import tempfile

sd = sys.argv[1].rstrip("/")
props = sys.argv[2:]
sid = os.path.basename(sd)
dst = os.path.join("/verif/seeded", sid)
os.makedirs(dst, exist_ok=True)
for f in ("patch.diff", "demo.py", "notes.md"):
    if os.path.exists(os.path.join(sd, f)):
        shutil.copy(os.path.join(sd, f), os.path.join(dst, f))
ver = {}
vl = os.path.join(sd, "verify.log")
if os.path.exists(vl):
    txt = open(vl).read()
    for k in ("demo_clean_exit", "patch_applies", "demo_patched_exit"):
        m = re.search(k + r"=(\S+)", txt)
        ver[k] = m.group(1) if m else None
    m = re.search(r"(\d+) failed, (\d+) passed", txt)
    ver["tests_with_patch"] = m.group(0) if m else txt.strip().splitlines()[-1] if txt.strip() else None
    ver["failing_tests_with_patch"] = re.findall(r"FAILED (\S+)", txt)
det = {}
D = tempfile.mkdtemp(prefix="seedchk.")
try:
    shutil.copytree("/repo/src", D + "/src")
    subprocess.run(["git", "init", "-q", "."], cwd=D)
    ok = subprocess.run(["git", "apply", "--include=src/*", os.path.join(dst, "patch.diff")], cwd=D).returncode == 0
    for p in props:
        if not ok:
            det[p] = {"exit": None, "note": "patch does not apply to the current tree"}
            continue
        r = subprocess.run(["./check", p, "--tier", "quick"], cwd="/verif", env=dict(os.environ, PYVC_REPO_SRC=D + "/src"), capture_output=True, text=True)
        viol = sorted({re.sub(r"^.*obligation=", "", ln).strip() for ln in r.stdout.splitlines() if ln.startswith("VIOLATION")})
        det[p] = {"exit": r.returncode, "violations": len(viol), "failed_obligations": viol[:8], "undecided": sum(1 for ln in r.stdout.splitlines() if ln.startswith("UNDECIDED"))}
finally:
    shutil.rmtree(D, ignore_errors=True)
notes = open(os.path.join(dst, "notes.md")).read() if os.path.exists(os.path.join(dst, "notes.md")) else ""
meta = {
    "id": sid,
    "breaks_property": props[0] if props else sid.split("-")[0],
    "needs_to_manifest": "see notes.md (written by the sub-agent that produced the change)",
    "produced_by": "independent sub-agent given only the property text and its own scratch worktree of /repo",
    "confirmed_by_me": {
        "how": "tools/verify_seed.sh: fresh git worktree of /repo at HEAD under /tmp/vw, demo.py run on the clean tree and with patch.diff applied, then the full test suite with the patch (PYTHONPATH pointing at the worktree); worktree removed afterwards",
        **ver,
        "baseline": "3 failed, 318 passed on the unchanged tree (the same three environment-related failures)",
    },
    "detection_by_checks": det,
}
json.dump(meta, open(os.path.join(dst, "meta.json"), "w"), indent=1)
print(sid, ver.get("demo_clean_exit"), ver.get("demo_patched_exit"), ver.get("tests_with_patch"), {p: (d.get("exit"), d.get("violations")) for p, d in det.items()})
