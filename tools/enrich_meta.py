"""Fill meta.json 'needs_to_manifest' from the sub-agent's notes.md (lines that speak about what the change needs)
and record the commands that were run."""
import glob
import json
import os
import re

for f in sorted(glob.glob("/verif/seeded/*/meta.json")):
    d = os.path.dirname(f)
    m = json.load(open(f))
    notes = open(os.path.join(d, "notes.md")).read() if os.path.exists(os.path.join(d, "notes.md")) else ""
    raw = [ln.strip() for ln in notes.splitlines()]
    hit = next((i for i, ln in enumerate(raw) if re.search(r"need|manifest|trigger|only (shows|when|if)", ln, re.I)), None)
    if hit is None:
        text = "see notes.md"
    else:
        chunk = [ln.strip(" -*#`") for ln in raw[hit : hit + 8] if ln.strip(" -*#`")]
        text = " | ".join(chunk[:5])[:1000]
    m["needs_to_manifest"] = text
    m["what_i_ran"] = [
        f"tools/verify_seed.sh /tmp/seeds/{m['id']}   (fresh worktree of /repo under /tmp/vw: demo.py clean, git apply patch.diff, demo.py patched, full test suite with the patch; worktree removed)",
        f"tools/store_seed.py /tmp/seeds/{m['id']} {' '.join(m.get('detection_by_checks', {}).keys())}   (scratch copy of /repo/src with the patch, ./check <ID> --tier quick with PYVC_REPO_SRC pointing at it; scratch copy removed)",
    ]
    json.dump(m, open(f, "w"), indent=1)
print("done")
