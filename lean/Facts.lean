/-
Real-analysis, finite-sum and counting facts that the contracts of /verif use as *ground instances*
(pyvc/mathlemmas.py, pyvc/stubs/jax_impl.py `_note_exp/_note_log`, contracts/discrete_problem.py C20,
contracts/simulate.py `choice_segments_contract`).  Each schema is stated here in general form and
proved from Mathlib, so that the only thing left assumed about them is that the instances generated in
Python are instances of these statements.
-/
import Mathlib

open Real Finset

-- exp / log facts (C15 log-grid coordinates, C16 log grids, C20)
example (t : ℝ) : 0 < Real.exp t := Real.exp_pos t
example (t : ℝ) : Real.log (Real.exp t) = t := Real.log_exp t
example (x : ℝ) (hx : 0 < x) : Real.exp (Real.log x) = x := Real.exp_log hx
example (s t : ℝ) : Real.exp s < Real.exp t ↔ s < t := Real.exp_lt_exp
example (x y : ℝ) (hx : 0 < x) (hy : 0 < y) : Real.log x < Real.log y ↔ x < y := Real.log_lt_log_iff hx hy
example (x m : ℝ) : Real.exp (x - m) = Real.exp x * Real.exp (-m) := by
  rw [sub_eq_add_neg, Real.exp_add]
example (x y : ℝ) (hx : 0 < x) (hy : 0 < y) : Real.log (x * y) = Real.log x + Real.log y :=
  Real.log_mul (ne_of_gt hx) (ne_of_gt hy)
example (x : ℝ) (hx : x ≤ 0) : Real.exp x ≤ 1 := Real.exp_le_one_iff.mpr hx
example : Real.exp 0 = 1 := Real.exp_zero
example : Real.log 1 = 0 := Real.log_one
example (x y : ℝ) (hx : 0 < x) (hxy : x ≤ y) : Real.log x ≤ Real.log y := Real.log_le_log hx hxy

-- finite sums (C20): a sum of non-negative terms bounds each term
example {ι : Type*} (s : Finset ι) (f : ι → ℝ) (h : ∀ i ∈ s, 0 ≤ f i) (j : ι) (hj : j ∈ s) :
    f j ≤ ∑ i ∈ s, f i := Finset.single_le_sum h hj
-- a sum of terms ≤ 1 is at most the number of terms
example {ι : Type*} (s : Finset ι) (f : ι → ℝ) (h : ∀ i ∈ s, f i ≤ 1) :
    ∑ i ∈ s, f i ≤ (s.card : ℝ) := by
  have := Finset.sum_le_card_nsmul s f 1 h
  simpa using this
-- homogeneity: ∑ x_i * c = (∑ x_i) * c
example {ι : Type*} (s : Finset ι) (f : ι → ℝ) (c : ℝ) : ∑ i ∈ s, f i * c = (∑ i ∈ s, f i) * c :=
  (Finset.sum_mul s f c).symm
-- a sum of positive terms over a non-empty set is positive
example {ι : Type*} (s : Finset ι) (f : ι → ℝ) (h : ∀ i ∈ s, 0 < f i) (hs : s.Nonempty) :
    0 < ∑ i ∈ s, f i := Finset.sum_pos h hs

-- counting (simulate.create_choice_segments): a sequence that takes exactly the values 0..n-1 has n distinct values
example (K n : ℕ) (x : Fin K → ℕ) (hr : ∀ j, x j < n) (hs : ∀ v, v < n → ∃ j, x j = v) :
    (Finset.univ.image x).card = n := by
  have : Finset.univ.image x = Finset.range n := by
    ext v
    simp only [Finset.mem_image, Finset.mem_univ, true_and, Finset.mem_range]
    constructor
    · rintro ⟨j, rfl⟩; exact hr j
    · intro hv; exact hs v hv
  rw [this, Finset.card_range]

-- the affine law of the Bellman maximum (C11), over a finite non-empty feasible set
example {ι : Type*} (s : Finset ι) (hs : s.Nonempty) (q : ι → ℝ) (a b : ℝ) (ha : 0 < a) :
    s.sup' hs (fun i => a * q i + b) = a * s.sup' hs q + b := by
  apply le_antisymm
  · apply Finset.sup'_le
    intro i hi
    have := Finset.le_sup' q hi
    nlinarith
  · obtain ⟨i, hi, hmax⟩ := Finset.exists_mem_eq_sup' hs q
    rw [hmax]
    exact Finset.le_sup' (fun i => a * q i + b) hi
