"""Contracts for lcm.state_space (C17, C05)."""

from __future__ import annotations

from pyvc import logic as L
from pyvc.contract import Raised, contract

from .skeletons import build, skeletons
from .specmodel import spec_eval


class SPInst:
    def __init__(self, skel, period):
        self.skel, self.period = skel, period
        self.label = f"{skel.label},period={period}"


def filter_family(tier):
    from .skeletons import aux_filter_skeleton

    out = []
    for s in [*skeletons(tier), aux_filter_skeleton()]:
        if s.names_with_role("filter"):
            for t in range(s.n_periods) if tier != "quick" else (0, s.n_periods - 1):
                out.append(SPInst(s, t))
    return out


def _grid_value(k, im, name, i):
    return k.at(im.grids[name], (i,))


@contract("lcm.state_space.create_filter_mask", family=filter_family, props=("C17",))
def filter_mask_contract(k, inst):
    """(statement of C17) the mask has one axis per filter-restricted variable in canonical order with the
    length of its grid, and mask[idx] = conjunction of all filters evaluated (through auxiliary functions) at the
    grid values selected by idx and at the given period."""
    skel = inst.skel
    b = build(k, skel)
    im = k.call_fn(k.fn("lcm.input_processing.process_model.process_model"), b.model)
    if isinstance(im, Raised):
        k.fail("model-processed", repr(im))
        return
    res = skel.restricted()
    A = [v for v in skel.canonical_order() if v in res]
    mask = k.call(model=im, subset=list(A), fixed_inputs={"_period": inst.period}, jit_filter=False)
    if isinstance(mask, Raised):
        k.fail("mask-created", repr(mask))
        return
    sizes = [skel.n_labels(a) for a in A]
    shp = k.shape(mask)
    k.ensures("one-axis-per-restricted-variable", len(shp) == len(A) and all(bool(L.eq(x, y)) for x, y in zip(shp, sizes)))
    if len(shp) != len(A):
        return
    for idx in k.indices(sizes, name="c"):
        env = {a: _grid_value(k, im, a, i) for a, i in zip(A, idx)}
        env["_period"] = inst.period
        want = L.And(*[spec_eval(k, b, f, env) for f in skel.names_with_role("filter")])
        k.ensures("mask-is-conjunction-of-filters", L.Iff(k.at(mask, idx), want))


class CGInst:
    def __init__(self, rank, extra_mask_rank=None):
        self.rank, self.extra = rank, extra_mask_rank
        self.label = f"rank={rank}" + (f",second_mask_rank={extra_mask_rank}" if extra_mask_rank else "")


def cg_family(tier):
    out = [CGInst(r) for r in ((1, 2) if tier == "quick" else (1, 2, 3, 4))]
    out.append(CGInst(2, 1))
    if tier != "quick":
        out.append(CGInst(3, 2))
    return out


@contract("lcm.state_space.create_combination_grid", family=cg_family, props=("C17",))
def combination_grid_contract(k, inst):
    """(statement of C17) the stored arrays hold exactly the combinations for which the mask is True, each
    once, in row-major order: row k is the k-th True position c_k of the mask (c_k < c_k' for k < k'),
    out[a][k] = grid_a[c_k[axis of a]], every True position is stored, and there are as many rows as True
    entries.  Several masks are combined by conjunction (lower-rank masks cover the leading axes)."""
    r = inst.rank
    names = [f"v{q}" for q in range(r)]
    ns = [k.int(f"n{q}", ge=1, le=3, size=True) for q in range(r)]
    grids = {nm: k.array(f"g_{nm}", [n], "float", gen=lambda rng, shp: [float(i * 1.5 + 0.5) for i in range(shp[0])]) for nm, n in zip(names, ns)}
    mask = k.array("mask", ns, "bool")
    if inst.extra:
        m2 = k.array("mask2", ns[: inst.extra], "bool")
        out = k.call(grids, [mask, m2], subset=list(reversed(names)))
        eff = lambda c: L.And(k.at(mask, c), k.at(m2, c[: inst.extra]))
    else:
        m2 = None
        out = k.call(grids, mask, subset=list(reversed(names)))
        eff = lambda c: k.at(mask, c)
    if isinstance(out, Raised):
        k.fail("grid-created", repr(out))
        return
    k.ensures("keys-in-grid-order", isinstance(out, dict) and list(out) == names)
    if not (isinstance(out, dict) and list(out) == names):
        return
    K = k.shape(out[names[0]])[0]
    k.ensures("equal-lengths", L.And(*[L.And(len(k.shape(out[nm])) == 1, L.eq(k.shape(out[nm])[0], K)) for nm in names]))
    if k.mode == "native":
        import itertools

        want = [c for c in itertools.product(*[range(int(n)) for n in ns]) if eff(c)]
        k.ensures("exactly-the-passing-combinations-in-row-major-order", int(K) == len(want) and all(abs(float(out[nm][i]) - float(grids[nm][c[q]])) < 1e-6 for i, c in enumerate(want) for q, nm in enumerate(names)))
        return
    # symbolic: the order isomorphism between rows and True positions (the abstract selector of the
    # effective mask) is the witness of "exactly, once each, in row-major order"
    from pyvc.indexing import mask_selector
    from pyvc.values import T

    ms = _selector_of_effective_mask(k, mask, m2, inst)
    k.ensures("as-many-rows-as-true-entries", L.eq(K, T(ms.K)))
    for (row,) in k.indices([K], name="row"):
        c = [T(x) for x in ms.sel(row)]
        k.ensures("stored-row-passes-all-masks", eff(c))
        for q, nm in enumerate(names):
            k.ensures(f"row-holds-grid-values[{q}]", L.eq(k.at(out[nm], (row,)), k.at(grids[nm], (c[q],))))
    for c in k.indices(ns, name="comb"):
        k.ensures("every-passing-combination-is-stored", L.Implies(eff(c), L.And(T(ms.rank(c)) >= 0, T(ms.rank(c)) < K, *[L.eq(k.at(out[nm], (T(ms.rank(c)),)), k.at(grids[nm], (c[q],))) for q, nm in enumerate(names)])))
    for (r1, r2) in k.indices([K, K], name="ord"):
        k.ensures("row-major-order-no-duplicates", L.Implies(r1 < r2, L.lex_lt([T(x) for x in ms.sel(r1)], [T(x) for x in ms.sel(r2)])))


def _selector_of_effective_mask(k, mask, m2, inst):
    """selector of the mask the code indexes with: for a single mask the input itself; for several, the
    conjunction built by `_combine_masks` (looked up among the selectors created during the call)"""
    from pyvc.ctx import cur
    from pyvc.indexing import mask_selector

    memo = cur().memo.get("masksel", {})
    if m2 is None:
        return mask_selector(mask)
    sels = [v[0] for v in memo.values()]
    if len(sels) != 1:
        from pyvc.ctx import Undecided

        raise Undecided("cannot identify the combined mask")
    return sels[0]


class ISInst:
    def __init__(self, n_states, n_choices):
        self.n_states, self.n_choices = n_states, n_choices
        self.label = f"restricted_states={n_states},restricted_choices={n_choices}"


def is_family(tier):
    pairs = [(1, 1), (1, 2), (2, 1)] if tier == "quick" else [(1, 1), (1, 2), (2, 1), (2, 2), (1, 0), (2, 0)]
    return [ISInst(a, c) for a, c in pairs]


@contract("lcm.state_space.create_indexers_and_segments", family=is_family, props=("C17", "C05"))
def indexers_and_segments_contract(k, inst):
    """(statement of C17) the state indexer maps every restricted-state combination with at least one
    passing choice to its rank among such combinations -- i.e. it is an order isomorphism from these
    combinations (row-major) onto [0, number of such combinations) -- and every other combination to -1;
    num_segments is that number.  [bounded stand-in] segment_ids has one entry per stored combination, equal
    to the rank of its state combination, and the state-choice indexer enumerates the True entries."""
    ns_, nc_ = inst.n_states, inst.n_choices
    S = [k.int(f"s{q}", ge=1, le=3, size=True) for q in range(ns_)]
    C = [k.int(f"c{q}", ge=1, le=3, size=True) for q in range(nc_)]
    mask = k.array("mask", S + C, "bool")
    out = k.call(mask, ns_)
    if isinstance(out, Raised):
        k.fail("indexers-created", repr(out))
        return
    ind, sc_ind, seg = out
    nfeas = seg["num_segments"]
    feas = lambda s: L.exists(C, lambda c: k.at(mask, (*s, *c))) if nc_ else k.at(mask, s)
    shp = k.shape(ind)
    k.ensures("state-indexer-shape", len(shp) == ns_ and all(bool(L.eq(x, y)) for x, y in zip(shp, S)))
    for s in k.indices(S, name="st"):
        v = k.at(ind, s)
        k.ensures("infeasible-state-maps-to-minus-one", L.Implies(L.Not(feas(s)), L.eq(v, -1)))
        k.ensures("feasible-state-maps-into-range", L.Implies(feas(s), L.And(v >= 0, v < nfeas)))
    for s in k.indices(S, name="sa"):
        for s2 in k.indices(S, name="sb"):
            k.ensures("rank-is-strictly-increasing-in-row-major-order", L.Implies(L.And(feas(s), feas(s2), L.lex_lt(s, s2)), k.at(ind, s) < k.at(ind, s2)))
    for (r,) in k.indices([nfeas], name="rk") if (ns_ == 1 or k.mode == "native") else ():
        # (two restricted states: the existential VC is not stable within budget; covered natively)
        k.ensures("every-rank-is-attained", L.exists(S, lambda s: L.And(feas(s), L.eq(k.at(ind, s), r))))

    def segments_clause():
        import itertools

        import numpy as np

        m = np.asarray(mask)
        states = [s for s in itertools.product(*[range(int(x)) for x in S]) if m[s].any()]
        rank = {s: i for i, s in enumerate(states)}
        want = [rank[idx[:ns_]] for idx in itertools.product(*[range(int(x)) for x in S + C]) if m[idx]]
        got = [int(x) for x in np.asarray(seg["segment_ids"]).reshape(-1)]
        return got == want and int(nfeas) == len(states)

    k.ensures("segment-ids-are-ranks-of-the-stored-combinations'-states", segments_clause, bounded=True)

    def sc_clause():
        import numpy as np

        m = np.asarray(mask)
        red = m[m.reshape(m.shape[:ns_] + (-1,)).any(axis=-1)] if nc_ else m[m]
        got = np.asarray(sc_ind)
        cnt = 0
        ok = got.shape == red.shape
        for idx in np.ndindex(*red.shape):
            if red[idx]:
                ok = ok and int(got[idx]) == cnt
                cnt += 1
            else:
                ok = ok and int(got[idx]) == -1
        return bool(ok)

    k.ensures("state-choice-indexer-enumerates-true-entries", sc_clause, bounded=True)


def space_family(tier):
    out = []
    for s in skeletons(tier):
        for t in sorted({0, s.n_periods - 1}):
            out.append(SPInst(s, t))
    return out


@contract("lcm.state_space.create_state_choice_space", family=space_family, props=("C05", "C17", "C01"))
def state_choice_space_contract(k, inst):
    """(statements of C05/C17) unrestricted discrete variables and continuous states are stored as their full
    grids, in canonical order (discrete states, discrete choices, continuous states); the filter-restricted
    variables are stored as equally long arrays (one row per stored combination) in canonical order; a state
    indexer exists iff some state is restricted; the described axes are [state_index if restricted states] +
    unrestricted discrete states + continuous states; discrete states go to lookup, continuous states to
    interpolation; segments exist iff some variable is restricted and have one id per stored row."""
    from .bellman import Layout

    skel, t = inst.skel, inst.period
    b = build(k, skel)
    im = k.call_fn(k.fn("lcm.input_processing.process_model.process_model"), b.model)
    if isinstance(im, Raised):
        k.fail("model-processed", repr(im))
        return
    out = k.call(model=im, period=t, is_last_period=(t == skel.n_periods - 1), jit_filter=False)
    if isinstance(out, Raised):
        k.fail("space-created", repr(out))
        return
    space, info, indexers, segments = out
    lay = Layout(skel)
    R = lay.RS + lay.RC
    k.ensures("dense-variables-are-full-grids-in-canonical-order", list(space.dense_vars) == lay.DS + lay.DC + lay.CS and all(space.dense_vars[v] is im.grids[v] for v in space.dense_vars))
    k.ensures("restricted-variables-in-canonical-order", list(space.sparse_vars) == R)
    if R:
        n0 = k.shape(space.sparse_vars[R[0]])[0]
        k.ensures("restricted-arrays-equally-long", L.And(*[L.And(len(k.shape(space.sparse_vars[v])) == 1, L.eq(k.shape(space.sparse_vars[v])[0], n0)) for v in R]))
        k.ensures("segments-one-id-per-stored-row", segments is not None and bool(len(k.shape(segments["segment_ids"])) == 1) and L.eq(k.shape(segments["segment_ids"])[0], n0))
    else:
        k.ensures("no-segments-without-restricted-variables", segments is None)
    k.ensures("indexer-iff-restricted-state", (set(indexers) == {"state_indexer"}) if lay.RS else (indexers == {}))
    if lay.RS:
        shp = k.shape(indexers["state_indexer"])
        k.ensures("indexer-has-one-axis-per-restricted-state", len(shp) == len(lay.RS) and all(bool(L.eq(x, skel.n_labels(v))) for x, v in zip(shp, lay.RS)))
    k.ensures("axis-names", list(info.axis_names) == (["state_index"] if lay.RS else []) + lay.DS + lay.CS)
    k.ensures("lookup-info-discrete-states", set(info.lookup_info) == set(lay.RS + lay.DS))
    k.ensures("interpolation-info-continuous-states", list(info.interpolation_info) == lay.CS)
    k.ensures("indexer-info", [(list(i.axis_names), i.name, i.out_name) for i in info.indexer_infos] == ([(lay.RS, "state_indexer", "state_index")] if lay.RS else []))
