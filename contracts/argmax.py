"""Contracts for lcm.argmax (C18, used by C02).  Postconditions are taken from the statement of C18."""

from __future__ import annotations

import itertools

from pyvc import logic as L
from pyvc.contract import Raised, contract


class ArgmaxInst:
    def __init__(self, rank, axes, axis_arg, has_where, has_initial):
        self.rank, self.axes, self.axis_arg = rank, axes, axis_arg
        self.has_where, self.has_initial = has_where, has_initial
        self.label = f"rank={rank},axis={axis_arg!r},where={int(has_where)},initial={int(has_initial)}"


def argmax_family(tier):
    max_rank = 2 if tier == "quick" else 4
    out = []
    for r in range(1, max_rank + 1):
        axis_args = [None]
        for m in range(1, r + 1):
            for sub in itertools.combinations(range(r), m):
                axis_args.append(sub[0] if m == 1 else sub)
                if m >= 2:
                    axis_args.append(tuple(reversed(sub)))  # order of `axis` decides the flattening order
        for ax in axis_args:
            axes = tuple(range(r)) if ax is None else ((ax % r,) if isinstance(ax, int) else tuple(ax))
            for hw, hi in ((True, True), (False, True), (False, False)):
                if tier == "quick" and r == 2 and not hw and hi and isinstance(ax, tuple):
                    continue
                out.append(ArgmaxInst(r, axes, ax, hw, hi))
    return out


def merge(rank, axes, b, q):
    """full index from batch part `b` (non-reduced axes, ascending) and reduced part `q` (order of axes)"""
    idx = [None] * rank
    batch = [d for d in range(rank) if d not in axes]
    for d, v in zip(batch, b):
        idx[d] = v
    for d, v in zip(axes, q):
        idx[d] = v
    return tuple(idx)


@contract("lcm.argmax.argmax", family=argmax_family, props=("C18", "C02"))
def argmax_contract(k, inst):
    """For every batch index: if some element is unmasked, the returned position is the row-major
    position (over the reduced axes in the order given) of an unmasked element equal to the masked
    maximum, every unmasked element is <= it, every earlier unmasked element is strictly smaller,
    and the second output is that maximum; if everything is masked, position 0 and `initial`."""
    r, axes = inst.rank, inst.axes
    batch = [d for d in range(r) if d not in axes]
    # every extent >= 1: reduced axes must be non-empty, and `reshape(..., -1)` cannot infer the
    # flattened extent next to an empty batch axis (derived from the code: ZeroDivisionError)
    ns = [k.int(f"n{d}", ge=1, size=True) for d in range(r)]
    a = k.array("a", ns, "float")
    w = k.array("where", ns, "bool") if inst.has_where else None
    init = k.ninf if inst.has_initial else None
    if inst.has_initial:
        # data are above -inf (finite utilities); derived from the call sites, which pass initial=-inf
        k.requires(L.forall(ns, lambda ix: k.at(a, ix) > init))
    out = k.call(a, axis=inst.axis_arg, initial=init, where=w)
    if isinstance(out, Raised):
        k.fail("no-exception", repr(out))
        return
    idx, mx = out
    red = [ns[d] for d in axes]
    bshape = [ns[d] for d in batch]
    k.ensures("shape-index", L.And(*[L.eq(x, y) for x, y in zip(k.shape(idx), bshape)], len(k.shape(idx)) == len(bshape)))
    k.ensures("shape-max", L.And(*[L.eq(x, y) for x, y in zip(k.shape(mx), bshape)], len(k.shape(mx)) == len(bshape)))
    N = k.ravel_size(red)
    for b in k.indices(bshape):
        # j ranges over flattened positions of the reduced block; unravel = THE row-major bijection
        live = lambda j: (k.at(w, merge(r, axes, b, k.unravel(red, j))) if w is not None else True)
        val = lambda j: k.at(a, merge(r, axes, b, k.unravel(red, j)))
        some = L.exists([N], lambda j: live(j[0])) if w is not None else True
        pos = k.at(idx, b)
        m = k.at(mx, b)
        k.ensures("position-in-range", L.And(pos >= 0, pos < N))
        k.ensures("attained-unmasked", L.Implies(some, L.And(live(pos), L.eq(val(pos), m))))
        k.ensures("is-maximum", L.Implies(some, L.forall([N], lambda j: L.Implies(live(j[0]), val(j[0]) <= m))))
        k.ensures(
            "first-on-ties",
            L.Implies(some, L.forall([N], lambda j: L.Implies(L.And(live(j[0]), j[0] < pos), val(j[0]) < m))),
        )
        if w is not None:
            k.ensures("all-masked", L.Implies(L.Not(some), L.And(L.eq(pos, 0), L.eq(m, init))))


class SegInst:
    def __init__(self, trailing):
        self.trailing = trailing
        self.label = f"trailing_rank={trailing}"


def seg_family(tier):
    return [SegInst(t) for t in ((0, 1) if tier == "quick" else (0, 1, 2))]


def sorted_ids(rng, n, num):
    """sorted ids covering 0..num-1 when n >= num (native sampling)"""
    if num == 0 or n < num:
        return [0] * n
    cuts = sorted(rng.sample(range(1, n), num - 1)) if num > 1 else []
    out, seg = [], 0
    for j in range(n):
        while seg < len(cuts) and j >= cuts[seg]:
            seg += 1
        out.append(seg)
    return out


def segment_pre(k, n, num, ids):
    """what create_indexers_and_segments / create_choice_segments establish: ids sorted, in range,
    every segment non-empty"""
    k.requires(L.forall([n], lambda j: L.And(k.at(ids, j) >= 0, k.at(ids, j) < num)))
    k.requires(L.forall([n, n], lambda jj: L.Implies(jj[0] <= jj[1], k.at(ids, (jj[0],)) <= k.at(ids, (jj[1],)))))
    k.requires(L.forall([num], lambda s: L.exists([n], lambda j: L.eq(k.at(ids, j), s[0]))))


@contract("lcm.argmax.segment_argmax", family=seg_family, props=("C18", "C02"))
def segment_argmax_contract(k, inst):
    """For every segment (ids sorted, every segment non-empty) and trailing position: the returned
    row lies in the segment and its value equals the segment maximum, which bounds every row of
    the segment; the second output is that maximum."""
    n = k.int("n", ge=0, size=True)
    num = k.int("num", ge=0, size=True)
    tr = [k.int(f"t{q}", ge=0, size=True) for q in range(inst.trailing)]
    data = k.array("data", [n, *tr], "float")
    ids = k.array("ids", [n], "int", gen=lambda rng, shp: sorted_ids(rng, shp[0], int(num)))
    segment_pre(k, n, num, ids)
    out = k.call(data, ids, num) if k.mode != "native" else k.call(data, ids, int(num))
    if isinstance(out, Raised):
        k.fail("no-exception", repr(out))
        return
    am, mx = out
    k.ensures("shape", L.And(len(k.shape(am)) == 1 + len(tr), L.eq(k.shape(am)[0], num), len(k.shape(mx)) == 1 + len(tr), L.eq(k.shape(mx)[0], num)))
    for st in k.indices([num, *tr], name="s"):
        s, t = st[0], st[1:]
        row = k.at(am, st)
        m = k.at(mx, st)
        k.ensures("row-in-range", L.And(row >= 0, row < n))
        k.ensures("row-in-segment", L.eq(k.at(ids, (row,)), s))
        k.ensures("row-attains-max", L.eq(k.at(data, (row, *t)), m))
        k.ensures("is-segment-maximum", L.forall([n], lambda j: L.Implies(L.eq(k.at(ids, j), s), k.at(data, (j[0], *t)) <= m)))
