"""Sidecar contracts, one module per lcm module (keyed by qualified name of the target)."""
from . import argmax, c_functools, discrete_problem, dispatchers, function_representation, grid_helpers, grids, input_processing, lemmas, ndimage, simulate, solve, state_space, user_model  # noqa: F401
