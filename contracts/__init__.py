"""Sidecar contracts, one module per lcm module (keyed by qualified name of the target)."""
from . import argmax, discrete_problem  # noqa: F401
