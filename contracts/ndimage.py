"""Contracts for lcm.ndimage (C15, carried into C14/C01).  (*) clauses are from the statement of C15."""

from __future__ import annotations

import itertools

from pyvc import logic as L
from pyvc.contract import Raised, contract


def spec_cell(k, c, n):
    """(lower index, upper weight) of the interpolation cell demanded by the statement: the cell
    containing c, the first cell below the range, the last cell above it (written independently of
    the code: no floor/clip)."""
    if k.mode == "native":
        import math

        low = min(max(math.floor(c), 0), n - 2)
        return low, c - low
    return None


@contract("lcm.ndimage._compute_indices_and_weights", props=("C15", "C14"), scope="forall")
def indices_and_weights_contract(k):
    """for every coordinate c and size n >= 2: the two entries are (l, 1 - w), (l + 1, w) with
    0 <= l <= n - 2, w = c - l; (*) l <= c < l + 1 inside the index range, l = 0 below it and
    l = n - 2 above it (linear continuation of the boundary cell)."""
    n = k.int("n", ge=2, size=True)
    c = k.real("c")
    out = k.call(c, n)
    if isinstance(out, Raised):
        k.fail("no-exception", repr(out))
        return
    k.ensures("two-entries", isinstance(out, list) and len(out) == 2 and all(len(p) == 2 for p in out))
    (l0, w0), (l1, w1) = out
    k.ensures("lower-in-range", L.And(l0 >= 0, l0 <= n - 2))
    k.ensures("upper-is-next", L.eq(l1, l0 + 1))
    k.ensures("weights-sum-to-one", k.close(w0 + w1, 1))
    k.ensures("upper-weight-is-offset", k.close(w1, c - l0))
    k.ensures("cell-contains-coordinate", L.Implies(L.And(c >= 0, c < n - 1), L.And(l0 <= c, c < l0 + 1)))
    k.ensures("below-range-first-cell", L.Implies(c < 0, L.eq(l0, 0)))
    k.ensures("above-range-last-cell", L.Implies(c >= n - 1, L.eq(l0, n - 2)))
    if k.mode != "native":
        kk = k.int("kk")
        k.ensures("at-node-weight-0-or-1", L.Implies(L.And(L.eq(c, kk), kk >= 0, kk <= n - 1), L.Or(L.And(L.eq(l0, kk), L.eq(w1, 0)), L.And(L.eq(l0, kk - 1), L.eq(w1, 1)))))


class MCInst:
    def __init__(self, rank, batched):
        self.rank, self.batched = rank, batched
        self.label = f"rank={rank},batched={int(batched)}"


def mc_family(tier):
    ranks = (1, 2) if tier == "quick" else (1, 2, 3, 4)
    out = [MCInst(r, False) for r in ranks]
    out += [MCInst(r, True) for r in ((1, 2) if tier == "quick" else (1, 2, 3))]
    return out


def _cell(k, c, n):
    """the cell of the statement, as terms: lower index l (an integer with the three cases) and weight"""
    if k.mode == "native":
        import math

        low = min(max(math.floor(c), 0), int(n) - 2)
        return low, c - low
    # symbolic: introduce l by its defining property (unique): existence is part of the int theory
    import z3

    from pyvc.ctx import cur
    from pyvc.values import T, lift

    ctx = cur()
    l = z3.Int(ctx.fresh("cell"))
    ce, ne = lift(c), lift(n)
    ctx.assume(z3.And(l >= 0, l <= ne - 2), tag="spec-cell")
    ctx.assume(z3.Implies(z3.And(ce >= 0, ce < z3.ToReal(ne) - 1), z3.And(z3.ToReal(l) <= ce, ce < z3.ToReal(l) + 1)), tag="spec-cell")
    ctx.assume(z3.Implies(ce < 0, l == 0), tag="spec-cell")
    ctx.assume(z3.Implies(ce >= z3.ToReal(ne) - 1, l == ne - 2), tag="spec-cell")
    return T(l), c - T(l)


@contract("lcm.ndimage.map_coordinates", family=mc_family, props=("C15", "C14", "C01"))
def map_coordinates_contract(k, inst):
    """(*) for an array of rank r (all extents >= 2) and any coordinate vector: the result is the
    multilinear blend sum over the 2^r corners of prod_d weight_d(corner_d) * input[cell + corner],
    where the cell per axis is the one containing the coordinate or the boundary cell outside the index
    range (linear continuation); (*) at integer coordinates inside the range it is the array entry."""
    r = inst.rank
    ns = [k.int(f"n{d}", ge=2, size=True) for d in range(r)]
    a = k.array("input", ns, "float", values=[0.0, 1.0, 2.0, 4.0, -1.0])
    if inst.batched:
        m = k.int("m", ge=1, size=True)
        coords = [k.array(f"c{d}", [m], "float", values=[-0.5, 0.0, 0.25, 0.5, 1.0, 1.5, 2.0, 2.75]) for d in range(r)]
    else:
        m = None
        coords = [k.real(f"c{d}") for d in range(r)]
    out = k.call(a, list(coords))
    if isinstance(out, Raised):
        k.fail("no-exception", repr(out))
        return
    if inst.batched:
        k.ensures("result-shape", L.And(len(k.shape(out)) == 1, L.eq(k.shape(out)[0], m) if len(k.shape(out)) == 1 else False))
    else:
        k.ensures("result-shape", len(k.shape(out)) == 0)
    for j in k.indices([m] if inst.batched else []):
        c = [k.at(cd, j) if inst.batched else cd for cd in coords]
        res = k.at(out, j)
        cells = [_cell(k, c[d], ns[d]) for d in range(r)]
        blend = None
        for corner in itertools.product((0, 1), repeat=r):
            wt = None
            for d in range(r):
                l, w = cells[d]
                f = w if corner[d] else 1 - w
                wt = f if wt is None else wt * f
            term = wt * k.at(a, tuple(cells[d][0] + corner[d] for d in range(r)))
            blend = term if blend is None else blend + term
        k.ensures("multilinear-blend", k.close(res, blend))
    if not inst.batched and k.mode != "native":
        # (*) node reproduction, split into the 2^r cases "last node or not" (each case is linear)
        ks = [k.int(f"node{d}") for d in range(r)]
        at_node = L.And(*[L.And(L.eq(coords[d], ks[d]), ks[d] >= 0, ks[d] <= ns[d] - 1) for d in range(r)])
        for case in itertools.product((False, True), repeat=r):
            hyp = L.And(at_node, *[(L.eq(ks[d], ns[d] - 1) if case[d] else ks[d] < ns[d] - 1) for d in range(r)])
            k.ensures("reproduces-nodes:" + "".join("L" if x else "i" for x in case), L.Implies(hyp, L.eq(out, k.at(a, ks))))
    if k.mode != "native":
        bad = k.call(a, list(coords) + [coords[0]])
        k.ensures("wrong-number-of-coordinates-rejected", isinstance(bad, Raised) and isinstance(bad.exc, ValueError))
