"""Contracts for lcm.functools (C19; used by C09, C10).  Clauses marked (*) come from the statement
of C19: every value is bound to the parameter of the same name whatever the keyword order; missing
or unexpected arguments are rejected."""

from __future__ import annotations

import inspect
import itertools

from pyvc import logic as L
from pyvc.contract import Raised, contract

from .families import capped, sig_label, signatures


class SigInst:
    def __init__(self, params):
        self.params = params
        self.names = [n for n, _ in params]
        self.label = "sig=" + sig_label(params)


def sig_family_all(tier):
    return [SigInst(p) for p in signatures(3 if tier == "quick" else 5)]


def _is_value_error(out):
    return isinstance(out, Raised) and isinstance(out.exc, ValueError)


def _ok_eq(k, out, expected):
    if isinstance(out, Raised):
        return False
    return L.eq(out, expected)


def _perms(names, cap=24):
    ps = list(itertools.permutations(names))
    return capped(ps, cap)[0]


@contract("lcm.functools.allow_only_kwargs", family=sig_family_all, props=("C19",), scope="per_structure")
def allow_only_kwargs_contract(k, inst):
    """w = allow_only_kwargs(f): signature(w) has f's names in order, all keyword-only; (*) w(**kw) for
    any keyword order returns f with every value bound to the parameter of the same name; (*) positional,
    missing or unexpected arguments raise ValueError."""
    names = inst.names
    f = k.absfunc("F", inst.params)
    vals = {n: k.real(f"v_{n}") for n in names}
    w = k.call(f)
    if isinstance(w, Raised):
        k.fail("wrapper-created", repr(w))
        return
    sig = inspect.signature(w)
    k.ensures("signature", list(sig.parameters) == names and all(p.kind == p.KEYWORD_ONLY for p in sig.parameters.values()))
    expected = f.spec(vals)
    for perm in _perms(names):
        out = k.call_fn(w, **{n: vals[n] for n in perm})
        k.ensures("binds-by-name:" + ",".join(perm), _ok_eq(k, out, expected))
    for miss in names:
        out = k.call_fn(w, **{n: vals[n] for n in names if n != miss})
        k.ensures("missing-rejected:" + miss, _is_value_error(out))
    out = k.call_fn(w, **{n: vals[n] for n in names}, zz=0.0)
    k.ensures("unexpected-rejected", _is_value_error(out))
    if names:
        out = k.call_fn(w, vals[names[0]], **{n: vals[n] for n in names[1:]})
        k.ensures("positional-rejected", _is_value_error(out))


@contract("lcm.functools.allow_args", family=sig_family_all, props=("C19",), scope="per_structure")
def allow_args_contract(k, inst):
    """w = allow_args(f): keyword-only parameters become positional-or-keyword; (*) for every split into
    leading positional and trailing keyword arguments, in any keyword order, w returns f with every value
    bound to the parameter of the same name; (*) too few, too many, unknown or doubly given names raise
    ValueError."""
    names = inst.names
    n = len(names)
    f = k.absfunc("F", inst.params)
    vals = {m: k.real(f"v_{m}") for m in names}
    w = k.call(f)
    if isinstance(w, Raised):
        k.fail("wrapper-created", repr(w))
        return
    sig = inspect.signature(w)
    want_kinds = [inspect.Parameter.POSITIONAL_ONLY if kd == "po" else inspect.Parameter.POSITIONAL_OR_KEYWORD for _, kd in inst.params]
    k.ensures("signature", list(sig.parameters) == names and [p.kind for p in sig.parameters.values()] == want_kinds)
    expected = f.spec(vals)
    for m in range(n + 1):
        for perm in _perms(names[m:], cap=12):
            out = k.call_fn(w, *[vals[x] for x in names[:m]], **{x: vals[x] for x in perm})
            k.ensures(f"binds-by-name:{m}pos+" + ",".join(perm), _ok_eq(k, out, expected))
    if n:
        out = k.call_fn(w, **{x: vals[x] for x in names[1:]})
        k.ensures("too-few-rejected", _is_value_error(out))
        out = k.call_fn(w, *[vals[x] for x in names], 0.0)
        k.ensures("too-many-positional-rejected", _is_value_error(out))
        out = k.call_fn(w, **{x: vals[x] for x in names[:-1]}, zz=0.0)
        k.ensures("unknown-keyword-rejected", _is_value_error(out))
    out = k.call_fn(w, **{x: vals[x] for x in names}, zz=0.0)
    k.ensures("too-many-keywords-rejected", _is_value_error(out))
    if n >= 2:
        # (*) the first parameter given positionally AND by keyword, another one missing: same count
        kw = {x: vals[x] for x in names[:-1]}
        out = k.call_fn(w, vals[names[0]], **{x: kw[x] for x in kw if x == names[0] or x in names[1:-1]})
        k.ensures("doubly-given-name-rejected", _is_value_error(out))


class ConvInst:
    def __init__(self, n):
        self.n = n
        self.label = f"n_parameters={n}"


@contract("lcm.functools.convert_kwargs_to_args", family=lambda tier: [ConvInst(n) for n in range(0, 4 if tier == "quick" else 6)], props=("C19", "C10"))
def convert_kwargs_to_args_contract(k, inst):
    """(*) result = [kwargs[p] for p in parameters if p in kwargs] for every subset of the parameter
    names given in every order; a key that is not a parameter raises ValueError."""
    from .families import NAMES

    names = NAMES[: inst.n]
    vals = {m: k.real(f"v_{m}") for m in names}
    for r in range(inst.n + 1):
        for sub in itertools.combinations(names, r):
            for perm in _perms(sub, cap=8):
                out = k.call({x: vals[x] for x in perm}, list(names))
                want = [vals[p] for p in names if p in sub]
                ok = (not isinstance(out, Raised)) and isinstance(out, list) and len(out) == len(want) and L.And(*[L.eq(a, b) for a, b in zip(out, want)])
                k.ensures("order-of-parameters:" + ",".join(perm), ok)
    out = k.call({"zz": 0.0, **vals}, list(names))
    k.ensures("unknown-key-rejected", _is_value_error(out))


@contract("lcm.functools.all_as_kwargs", family=lambda tier: [ConvInst(n) for n in range(0, 4 if tier == "quick" else 6)], props=("C19",))
def all_as_kwargs_contract(k, inst):
    """positional values are named by the leading names, keywords kept: {arg_names[i]: args[i]} | kwargs
    (callers never give a name twice); more positional values than names raise ValueError."""
    from .families import NAMES

    names = NAMES[: inst.n]
    vals = {m: k.real(f"v_{m}") for m in names}
    for m in range(inst.n + 1):
        for perm in _perms(names[m:], cap=6):
            out = k.call(tuple(vals[x] for x in names[:m]), {x: vals[x] for x in perm}, list(names))
            ok = (not isinstance(out, Raised)) and isinstance(out, dict) and set(out) == set(names) and L.And(*[L.eq(out[x], vals[x]) for x in names])
            k.ensures(f"names-values:{m}pos+" + ",".join(perm), ok)
    out = k.call(tuple(vals[x] for x in names) + (0.0,), {}, list(names))
    k.ensures("too-many-positional-rejected", _is_value_error(out))


@contract("lcm.functools.all_as_args", family=lambda tier: [ConvInst(n) for n in range(0, 4 if tier == "quick" else 6)], props=("C19",))
def all_as_args_contract(k, inst):
    """args + the keyword values in the order of arg_names."""
    from .families import NAMES

    names = NAMES[: inst.n]
    vals = {m: k.real(f"v_{m}") for m in names}
    for m in range(inst.n + 1):
        for perm in _perms(names[m:], cap=6):
            out = k.call(tuple(vals[x] for x in names[:m]), {x: vals[x] for x in perm}, list(names))
            ok = (not isinstance(out, Raised)) and isinstance(out, tuple) and len(out) == inst.n and L.And(*[L.eq(a, vals[x]) for a, x in zip(out, names)])
            k.ensures(f"positional-order:{m}pos+" + ",".join(perm), ok)


@contract("lcm.functools.get_union_of_arguments", family=lambda tier: [ConvInst(n) for n in range(0, 4)], props=("C19", "C09"))
def get_union_of_arguments_contract(k, inst):
    """the set of all parameter names of the given functions"""
    from .families import NAMES

    fs = []
    want = set()
    for i in range(inst.n):
        ps = [(x, "pk") for x in NAMES[i : i + 2]]
        fs.append(k.absfunc(f"F{i}", ps))
        want |= {x for x, _ in ps}
    out = k.call(fs)
    k.ensures("union", (not isinstance(out, Raised)) and out == want)
