"""Contracts for lcm.input_processing (C07 template and routing, C05 canonical order, C12 rejections)."""

from __future__ import annotations

import inspect

from pyvc import logic as L
from pyvc.contract import Raised, contract

from .skeletons import build, skeletons, symbolic_params


def skel_family(tier):
    return skeletons(tier)


@contract("lcm.input_processing.create_params_template.create_params_template", family=skel_family, props=("C07",))
def params_template_contract(k, skel):
    """(statement of C07) the template has 'beta', one entry per model function listing exactly the
    arguments that are neither model variables, model functions nor '_period', and under 'shocks' one
    array per stochastic state with the sizes of its dependencies in signature order (n_periods for
    '_period') followed by the number of labels; nothing else."""
    b = build(k, skel)
    out = k.call(b.model)
    if isinstance(out, Raised):
        k.fail("template-created", repr(out))
        return
    fnames = [n for n, _, _ in skel.functions]
    stoch = skel.stochastic_states()
    want_keys = {"beta", *fnames} | ({"shocks"} if stoch else set())
    k.ensures("keys", set(out) == want_keys)
    for f in fnames:
        k.ensures(f"entry[{f}]", isinstance(out.get(f), dict) and sorted(out[f]) == skel.model_params(f))
    if stoch:
        k.ensures("shocks-keys", isinstance(out.get("shocks"), dict) and set(out["shocks"]) == set(stoch))
        for x in stoch:
            deps = skel.fparams("next_" + x)
            want = [skel.n_periods if d == "_period" else skel.n_labels(d) for d in deps] + [skel.n_labels(x)]
            arr = out["shocks"].get(x)
            shp = k.shape(arr) if arr is not None else ()
            k.ensures(f"shock-shape[{x}]", len(shp) == len(want) and all(bool(L.eq(a, w)) for a, w in zip(shp, want)))
    # the mutable default argument is never handed out or modified
    again = k.call(b.model)
    k.ensures("fresh-template", (not isinstance(again, Raised)) and again is not out and set(again) == want_keys)


@contract("lcm.input_processing.process_model.process_model", family=skel_family, props=("C07", "C05", "C09"))
def process_model_contract(k, skel):
    """(statement of C07) every processed model function, called with the model variables and the whole
    params dict, returns the user function applied to these variables (by name) and to exactly the values
    stored under its own name in params; its signature is the non-parameter arguments followed by 'params';
    the transition weights of a stochastic state are params['shocks'][state] indexed by the dependency labels
    in signature order.  (C05) variables and grids are in canonical order.  (C09) the user's model is not
    modified."""
    b = build(k, skel)
    user_functions_before = dict(b.model.functions)
    im = k.call(b.model)
    if isinstance(im, Raised):
        k.fail("model-processed", repr(im))
        return
    order = skel.canonical_order()
    k.ensures("canonical-variable-order", list(im.variable_info.index) == order)
    k.ensures("grids-in-canonical-order", list(im.grids) == order and list(im.gridspecs) == order)
    k.ensures("user-model-untouched", dict(b.model.functions) == user_functions_before and all(b.model.functions[n] is user_functions_before[n] for n in user_functions_before))
    P = symbolic_params(k, im.params)
    fnames = {n for n, _, _ in skel.functions}
    for name, params, role in skel.functions:
        f = im.functions[name]
        mp = skel.model_params(name)
        args = [p for p in params if p not in mp]
        if role == "filter":
            k.ensures(f"filter-signature[{name}]", list(inspect.signature(f).parameters) == params)
            continue
        k.ensures(f"signature[{name}]", list(inspect.signature(f).parameters) == [*args, "params"])
        if role == "stoch":
            continue  # replaced by the grid of labels; its weights are checked below
        vals = {a: (k.int(f"{name}.{a}", ge=0, le=1) if (a == "_period" or (a in skel.grids and skel.is_disc(a))) else k.real(f"{name}.{a}")) for a in args}
        out = k.call_fn(f, **vals, params=P)
        by_name = dict(vals)
        for p in mp:
            by_name[p] = P[name][p]
        uf = b.funcs[name]
        if k.mode == "native":
            want = uf(**by_name)
            k.ensures(f"routing[{name}]", (not isinstance(out, Raised)) and k.close(float(out), float(want)))
        else:
            k.ensures(f"routing[{name}]", (not isinstance(out, Raised)) and L.eq(out, uf.spec(by_name)))
    for x in skel.stochastic_states():
        deps = skel.fparams("next_" + x)
        w = im.functions.get("weight_next_" + x)
        k.ensures(f"weight-function-exists[{x}]", w is not None)
        if w is None:
            continue
        k.ensures(f"weight-signature[{x}]", list(inspect.signature(w).parameters) == [*deps, "params"])
        sizes = [skel.n_periods if d == "_period" else skel.n_labels(d) for d in deps]
        for idx in k.indices(sizes, name=f"dep_{x}_"):
            out = k.call_fn(w, **dict(zip(deps, idx)), params=P)
            ok = not isinstance(out, Raised)
            k.ensures(f"weights-call[{x}]", ok)
            if not ok:
                continue
            for (j,) in k.indices([skel.n_labels(x)], name=f"lab_{x}_"):
                k.ensures(f"weights-are-shock-row[{x}]", L.eq(k.at(out, (j,)), k.at(P["shocks"][x], (*idx, j))))
        # the stochastic law of motion itself is replaced by the grid of labels
        nf = im.functions["next_" + x]
        g = k.call_fn(nf, **{d: 0 for d in deps}, params=P)
        k.ensures(f"stochastic-next-returns-label-grid[{x}]", (not isinstance(g, Raised)) and len(k.shape(g)) == 1 and bool(L.eq(k.shape(g)[0], skel.n_labels(x))))
