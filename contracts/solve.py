"""Contracts on the solution path (C01, C05, C06, C11): the backward loop of `solve` for every number of
periods, and the period step (continuous problem + discrete problem) of every skeleton against the
Bellman operator of the statement."""

from __future__ import annotations

from pyvc import logic as L
from pyvc.contract import Raised, contract

from .bellman import Bellman, Layout, install_overrides
from .specmodel import spec_eval
from .skeletons import build, skeletons, symbolic_params


class StepInst:
    def __init__(self, skel, period):
        self.skel, self.period = skel, period
        self.label = f"{skel.label},period={period}"


def step_family(tier):
    out = []
    for s in skeletons(tier):
        T = s.n_periods
        periods = sorted({0, T - 1}) if tier == "quick" else range(T)
        for t in periods:
            out.append(StepInst(s, t))
    return out


class OpaqueUF:
    """Contract substitution for the generated utility-and-feasibility function of one period (modular
    verification: the period step is checked against the callee's contract, which
    `utility_and_feasibility_contract` discharges): objective and feasibility are uninterpreted functions
    of the model-variable values; the helper arguments (value array, params, indexer) are recorded so that
    the step contract can require that the right objects were passed."""

    def __init__(self, skel, period, real):
        import inspect

        import z3

        self.skel, self.period = skel, period
        self.__signature__ = inspect.signature(real)
        self.__name__ = "u_and_f"
        self.__qualname__ = "u_and_f"
        self.__module__ = "lcm.model_functions"
        self.__doc__ = None
        self.__annotations__ = {}
        self.names = list(self.__signature__.parameters)
        self.scalars = [n for n in self.names if n in skel.variables]
        self.Q = z3.Function(f"objective.{period}", *([z3.RealSort()] * len(self.scalars)), z3.RealSort()) if self.scalars else z3.Real(f"objective.{period}")
        self.F = z3.Function(f"feasible.{period}", *([z3.RealSort()] * len(self.scalars)), z3.BoolSort()) if self.scalars else z3.Bool(f"feasible.{period}")
        self.has_constraints = bool(skel.names_with_role("constraint"))
        self.helpers_seen = []

    def terms(self, by_name):
        from pyvc.values import T, lift, _to_real

        vals = [_to_real(lift(by_name[n])) for n in self.scalars]
        q = T(self.Q(*vals) if self.scalars else self.Q)
        f = T(self.F(*vals) if self.scalars else self.F) if self.has_constraints else None
        return q, f

    def __call__(self, *args, **kwargs):
        # positional arguments follow the signature order, like the real function (all_as_kwargs)
        if len(args) > len(self.names):
            raise ValueError("too many positional arguments")
        by_name = dict(zip(self.names, args))
        for kk, v in kwargs.items():
            by_name[kk] = v
        missing = [n for n in self.names if n not in by_name]
        if missing:
            raise KeyError(missing[0])
        self.helpers_seen.append({n: by_name[n] for n in self.names if n not in self.scalars})
        return self.terms(by_name)


def install_opaque_uf(k, world, skel):
    """override get_utility_and_feasibility_function by its contract; returns (registry, restore)"""
    qn = "lcm.model_functions.get_utility_and_feasibility_function"
    made = {}
    old = world.overrides.get(qn)

    def ov(clo, args, kwargs):
        ba = clo._c.sig.bind(*args, **kwargs)
        a = ba.arguments
        del world.overrides[qn]
        try:
            real = clo(*args, **kwargs)
        finally:
            world.overrides[qn] = ov
        o = OpaqueUF(skel, a["period"], real)
        o.space_info = a["space_info"]
        o.is_last = a["is_last_period"]
        made[a["period"]] = o
        return o

    world.overrides[qn] = ov

    def restore():
        if old is None:
            world.overrides.pop(qn, None)
        else:
            world.overrides[qn] = old

    return made, restore


def record_spaces(k, world):
    """record the state-choice spaces that get_lcm_function builds (by period); returns (dict, restore)"""
    qn = "lcm.state_space.create_state_choice_space"
    rec = {}
    if k.mode == "native":
        return rec, (lambda: None)
    old = world.overrides.get(qn)

    def ov(clo, args, kwargs):
        ba = clo._c.sig.bind(*args, **kwargs)
        del world.overrides[qn]
        try:
            out = clo(*args, **kwargs)
        finally:
            world.overrides[qn] = ov
        rec[ba.arguments["period"]] = out
        return out

    world.overrides[qn] = ov

    def restore():
        if old is None:
            world.overrides.pop(qn, None)
        else:
            world.overrides[qn] = old

    return rec, restore


def run_step(k, kw, t, vf_next, P):
    cont = k.fn("lcm.solve_brute.solve_continuous_problem")
    ccv = k.call_fn(
        cont,
        state_choice_space=kw["state_choice_spaces"][t],
        compute_ccv=kw["compute_ccv_functions"][t],
        continuous_choice_grids=kw["continuous_choice_grids"][t],
        vf_arr=vf_next,
        state_indexers=kw["state_indexers"][t],
        params=P,
    )
    if isinstance(ccv, Raised):
        return ccv
    return k.call_fn(kw["emax_calculators"][t], ccv, params=P)


def same_space_info(a, b):
    try:
        return (
            list(a.axis_names) == list(b.axis_names)
            and list(a.lookup_info) == list(b.lookup_info)
            and list(a.interpolation_info) == list(b.interpolation_info)
            and [(i.axis_names, i.name, i.out_name) for i in a.indexer_infos] == [(i.axis_names, i.name, i.out_name) for i in b.indexer_infos]
        )
    except AttributeError:
        return False


def same_array(k, a, b):
    """two arrays are the same function of their indices (pointwise equal for an arbitrary index)"""
    if a is b:
        return True
    if a is None or b is None:
        return False
    sa, sb = k.shape(a), k.shape(b)
    if len(sa) != len(sb):
        return False
    conds = [L.eq(x, y) for x, y in zip(sa, sb)]
    for idx in k.indices(list(sa), name="ix"):
        conds.append(L.eq(k.at(a, idx), k.at(b, idx)))
    return L.And(*conds)


def skip_unsupported_filters(k, b, skel):
    """native sampling: a sampled filter that leaves some period without any admissible (restricted state,
    restricted choice) combination is not a supported model (C01: every state of the space has a choice; the
    space itself is non-empty) -- such samples are skipped"""
    if k.mode != "native":
        return
    import itertools

    from pyvc.contract import SkipInstance

    lay = Layout(skel)
    filters = skel.names_with_role("filter")
    if not filters:
        return
    for t in range(skel.n_periods):
        found = False
        for combo in itertools.product(*[range(skel.n_labels(v)) for v in lay.RS + lay.RC]):
            env = {**dict(zip(lay.RS + lay.RC, combo)), "_period": t}
            if all(bool(spec_eval(k, b, f, env)) for f in filters):
                found = True
                break
        if not found:
            raise SkipInstance("a period without any admissible restricted combination")


def setup_solution(k, skel):
    """real get_lcm_function on the skeleton's model; returns (built, internal model, keywords of the solve
    partial, params) or a Raised"""
    b = build(k, skel)
    skip_unsupported_filters(k, b, skel)
    im = k.call_fn(k.fn("lcm.input_processing.process_model.process_model"), b.model)
    if isinstance(im, Raised):
        return im
    got = k.call_fn(k.fn("lcm.entry_point.get_lcm_function"), model=b.model, targets="solve", jit=False)
    if isinstance(got, Raised):
        return got
    solve_model, template = got
    P = symbolic_params(k, template)
    return b, im, solve_model.keywords, P


@contract("lcm.solve_brute.solve_continuous_problem+emax", cid="C01.period-step", family=step_family, props=("C01", "C05", "C06", "C07", "C11"))
def period_step_contract(k, inst):
    """(statement of C01) for every grid state of period t that has a filter-passing choice, and ANY value
    array for period t+1: the computed entry is >= utility + beta * E[V_{t+1}] of every grid choice combination
    that passes all filters and all constraints, it equals that objective for one such combination, and it is
    -inf when no combination passes the constraints; V_{t+1} is read exactly in discrete states (through the
    indexer of period t+1 for restricted states), multilinearly interpolated in continuous states, averaged
    with the transition probabilities; the last period has no continuation.  (C05) the array has the axes
    [restricted-state index] + unrestricted discrete states + continuous states."""
    skel, t = inst.skel, inst.period
    T = skel.n_periods
    restore = install_overrides(k, k.world) if k.mode != "native" else (lambda: None)
    opaque, restore2 = install_opaque_uf(k, k.world, skel) if k.mode != "native" else ({}, lambda: None)
    spaces, restore3 = record_spaces(k, k.world)
    try:
        su = setup_solution(k, skel)
        if isinstance(su, Raised):
            k.fail("functions-created", repr(su))
            return
        b, im, kw, P = su
        css = k.fn("lcm.state_space.create_state_choice_space")
        # shapes of the later periods' arrays (contents are arbitrary: one-step contract)
        vf_next = None
        for tt in range(T - 1, t, -1):
            o = run_step(k, kw, tt, vf_next, P)
            if isinstance(o, Raised):
                k.fail("later-period-step-runs", repr(o))
                return
            vf_next = k.array(f"V{tt}", list(k.shape(o)), "float", values=[0.0, 1.0, 2.0, -1.0, 0.5])
        out = run_step(k, kw, t, vf_next, P)
        if isinstance(out, Raised):
            k.fail("step-runs", repr(out))
            return
        restore3()
        if k.mode == "native":
            sp_t = k.call_fn(css, model=im, period=t, is_last_period=(t == T - 1), jit_filter=False)
            sp_n = k.call_fn(css, model=im, period=t + 1, is_last_period=(t + 1 == T - 1), jit_filter=False) if t < T - 1 else None
        else:
            # the spaces get_lcm_function itself built for periods t and t+1 (contracts: C17)
            sp_t = spaces.get(t)
            sp_n = spaces.get(t + 1) if t < T - 1 else None
            k.ensures("one-space-per-period", sorted(spaces) == list(range(T)))
            if sp_t is None or (t < T - 1 and sp_n is None):
                return
    finally:
        restore()
        restore2()
        restore3()
    if isinstance(sp_t, Raised) or isinstance(sp_n, Raised):
        k.fail("spaces-created", repr(sp_t))
        return
    indexer_t = sp_t[2].get("state_indexer")
    indexer_n = sp_n[2].get("state_indexer") if sp_n is not None else None
    bm = Bellman(k, b, im, t, P, vf_next, indexer_n)
    if k.mode != "native":
        # the generated function of THIS period is the one used, with the right helper objects:
        # value array of period t+1, the params of the call, the feasibility indexer of period t+1
        o = opaque.get(t)
        k.ensures("uses-the-function-generated-for-this-period", o is not None and len(o.helpers_seen) >= 1 and o.is_last == (t == T - 1))
        if o is None or not o.helpers_seen:
            return
        seen = o.helpers_seen[-1]
        k.ensures("passes-the-params-of-the-call", seen.get("params") is P)
        if t < T - 1:
            k.ensures("passes-next-period-value-array", seen.get("vf_arr") is vf_next)
            k.ensures("next-period-space-info", same_space_info(o.space_info, sp_n[1]))
            if "state_indexer" in seen:
                k.ensures("passes-feasibility-indexer-of-next-period", same_array(k, seen["state_indexer"], indexer_n))
        bm.q = lambda env: o.terms(env)
    lay = bm.lay
    size = bm.grid_size
    # (C05) layout
    want_axes = ([None] if lay.RS else []) + [size(v) for v in lay.DS + lay.CS]
    shp = k.shape(out)
    k.ensures("axes-restricted-index-then-discrete-then-continuous-states", len(shp) == len(want_axes) and L.And(*[L.eq(a, w) for a, w in zip(shp, want_axes) if w is not None]))
    if len(shp) != len(want_axes):
        return
    state_vars = lay.RS + lay.DS + lay.CS
    choice_vars = lay.RC + lay.DC + lay.CC
    if k.mode != "native" and (lay.RS or lay.RC):
        _space_lemmas(k, sp_t, lay, im, indexer_t)
    for sidx in k.indices([size(v) for v in state_vars], name="s"):
        sdict = dict(zip(state_vars, sidx))
        passes = lambda cidx: bm.filters(bm.env({**{v: sdict[v] for v in lay.RS}, **dict(zip(lay.RC, cidx))}))
        state_in_space = L.exists([size(v) for v in lay.RC], passes) if lay.RS or lay.RC else True
        head = [k.at(indexer_t, tuple(sdict[v] for v in lay.RS))] if lay.RS else []
        pos = (*head, *[sdict[v] for v in lay.DS + lay.CS])
        val = k.at(out, pos)

        def objective(cidx):
            env = bm.env({**sdict, **dict(zip(choice_vars, cidx))})
            q, feas = bm.q(env)
            return q, L.And(bm.filters(env), True if feas is None else feas)

        csizes = [size(v) for v in choice_vars]
        # utilities and value arrays of supported models are finite: every feasible objective is above -inf
        finite = L.forall(csizes, lambda c: L.Implies(objective(c)[1], objective(c)[0] > k.ninf))
        if k.mode == "native":
            k.requires(finite)
        for cidx in k.indices(csizes, name="c"):
            q, ok = objective(cidx)
            k.ensures("value-bounds-every-feasible-combination", L.Implies(L.And(state_in_space, ok), k.leq(q, val)))
        some = L.exists(csizes, lambda c: objective(c)[1])
        # with filter-restricted variables the two existential clauses need a witness chain through the
        # segment reduction that the solvers do not find within budget: bounded stand-in (native, sampled)
        restricted = bool(lay.RS or lay.RC)
        attained = lambda: L.Implies(L.And(state_in_space, some, finite), L.exists(csizes, lambda c: L.And(objective(c)[1], k.close(objective(c)[0], val))))
        minus_inf = lambda: L.Implies(L.And(state_in_space, L.Not(some)), L.eq(val, k.ninf))
        if restricted:
            k.ensures("value-attained-by-a-feasible-combination", attained, bounded=True)
            k.ensures("no-feasible-combination-gives-minus-infinity", minus_inf, bounded=True)
        else:
            k.ensures("value-attained-by-a-feasible-combination", attained())
            k.ensures("no-feasible-combination-gives-minus-infinity", minus_inf())


class UFInst:
    def __init__(self, skel, period):
        self.skel, self.period = skel, period
        self.label = f"{skel.label},period={period}"


def uf_family(tier):
    out = []
    for s in skeletons(tier):
        T = s.n_periods
        for t in sorted({0, T - 1}) if tier == "quick" else range(T):
            out.append(UFInst(s, t))
    return out


@contract("lcm.model_functions.get_utility_and_feasibility_function", family=uf_family, props=("C01", "C07", "C11", "C09"))
def utility_and_feasibility_contract(k, inst):
    """(statement of C01/C07/C11) the generated function, at ANY values of the states and choices (on or off
    the grid), any next-period value array and any parameters, returns (utility + beta * sum over the nodes of
    the stochastic states of prod(weights) * V_{t+1}(next states), conjunction of all constraints); the last
    period returns (utility, constraints); beta enters exactly once; functions see only their own parameters."""
    skel, t = inst.skel, inst.period
    T = skel.n_periods
    is_last = t == T - 1
    restore = install_overrides(k, k.world) if k.mode != "native" else (lambda: None)
    try:
        b = build(k, skel)
        skip_unsupported_filters(k, b, skel)
        im = k.call_fn(k.fn("lcm.input_processing.process_model.process_model"), b.model)
        if isinstance(im, Raised):
            k.fail("model-processed", repr(im))
            return
        css = k.fn("lcm.state_space.create_state_choice_space")
        if is_last:
            space_info, indexers_n = {}, {}
        else:
            sp_n = k.call_fn(css, model=im, period=t + 1, is_last_period=(t + 1 == T - 1), jit_filter=False)
            if isinstance(sp_n, Raised):
                k.fail("space-created", repr(sp_n))
                return
            space_info, indexers_n = sp_n[1], sp_n[2]
        uf = k.call(model=im, space_info=space_info, name_of_values_on_grid="vf_arr", period=t, is_last_period=is_last)
        if isinstance(uf, Raised):
            k.fail("function-created", repr(uf))
            return
        P = symbolic_params(k, im.params)
        lay = Layout(skel)
        vals = {}
        for v in skel.variables:
            if skel.is_disc(v):
                vals[v] = k.int(f"at.{v}", ge=0, le=skel.n_labels(v) - 1)
            else:
                vals[v] = k.real(f"at.{v}")
        import inspect

        names = list(inspect.signature(uf).parameters)
        k.ensures("arguments-are-model-variables-params-and-helpers", set(names) <= set(skel.variables) | {"params", "vf_arr", "state_indexer"} and "params" in names)
        vf_next = None
        if not is_last:
            if lay.RS and k.mode == "native":
                # the real array of period t+1 has one row per feasible restricted-state combination
                import numpy as np

                n_rows = int(np.max(np.asarray(indexers_n["state_indexer"]))) + 1
                k.inputs["n_next_states"] = n_rows
                head = [n_rows]
            elif lay.RS:
                head = [k.shape(indexers_n["state_indexer"]) and k.int("n_next_states", ge=1, le=3, size=True)]
            else:
                head = []
            sizes = head + [skel.n_labels(v) for v in lay.DS] + [k.shape(im.grids[v])[0] for v in lay.CS]
            vf_next = k.array("V_next", sizes, "float", values=[0.0, 1.0, 2.0, -1.0, 0.5])
        kwargs = {}
        for nme in names:
            if nme == "params":
                kwargs[nme] = P
            elif nme == "vf_arr":
                kwargs[nme] = vf_next
            elif nme == "state_indexer":
                kwargs[nme] = indexers_n["state_indexer"]
            else:
                kwargs[nme] = vals[nme]
        out = k.call_fn(uf, **kwargs)
    finally:
        restore()
    if isinstance(out, Raised):
        k.fail("call-succeeds", repr(out))
        return
    bm = Bellman(k, b, im, t, P, vf_next, indexers_n.get("state_indexer") if indexers_n else None)
    env = dict(vals)
    env["_period"] = t
    q, feas = bm.q(env)
    u, f = out
    k.ensures("objective-is-utility-plus-beta-times-expected-next-value", k.close(u, q))
    if skel.names_with_role("constraint"):
        k.ensures("feasibility-is-conjunction-of-constraints", L.Iff(f, feas))
    else:
        k.ensures("no-constraints-means-always-feasible", f is None or f is True)


def _space_lemmas(k, sp_t, lay, im, indexer_t):
    """Ghost lemmas about the state-choice space of the period (each is proved, then used): row j of the
    stored combinations is the j-th True position c_j of the filter mask, holds the grid values of c_j, and
    its segment id is the feasibility index of the state part of c_j; conversely a state whose index equals
    the segment id of row j is the state part of c_j."""
    import z3

    from pyvc.ctx import cur
    from pyvc.values import T

    space, _info, _indexers, segments = sp_t
    R = lay.RS + lay.RC
    first = space.sparse_vars[R[0]]
    fm = getattr(first, "from_mask", None)
    if fm is None:
        return
    mask, ms = fm
    ctx = cur()
    j = z3.Int(ctx.fresh("lemma.row"))
    c = ms.sel(j)
    inr = z3.And(j >= 0, j < ms.K)
    ids = segments["segment_ids"] if segments is not None else None
    from pyvc.stubs.jnp_impl import _forall

    vals = z3.And(*[space.sparse_vars[a].get((j,)) == im.grids[a].get((c[q],)) for q, a in enumerate(R)])
    lem_vals = _forall([j], z3.Implies(inr, vals), patterns=[space.sparse_vars[R[0]].get((j,))])
    ctx.prove("lemma:rows-hold-the-grid-values-of-their-combination", lem_vals, "lemma")
    ctx.assume(lem_vals, tag="lemma")
    if ids is not None and lay.RS:
        cs = tuple(c[: len(lay.RS)])
        lem_seg = _forall([j], z3.Implies(inr, ids.get((j,)) == indexer_t.get(cs)), patterns=[ids.get((j,))])
        ctx.prove("lemma:segment-id-of-a-row-is-the-index-of-its-state", lem_seg, "lemma")
        ctx.assume(lem_seg, tag="lemma")
    if ids is not None and lay.RS and False:
        S = [z3.Int(ctx.fresh("lemma.s")) for _ in lay.RS]
        sizes = [k.shape(im.grids[a])[0] for a in lay.RS]
        from pyvc.values import inrange

        feas = z3.Exists(
            [z3.Int(f"lemma.c{q}") for q in range(len(lay.RC))],
            z3.And(inrange([k.shape(im.grids[a])[0] for a in lay.RC], [z3.Int(f"lemma.c{q}") for q in range(len(lay.RC))]), mask.get(tuple(S) + tuple(z3.Int(f"lemma.c{q}") for q in range(len(lay.RC))))),
        ) if lay.RC else mask.get(tuple(S))
        body2 = z3.Implies(
            z3.And(inr, inrange(sizes, S), feas, ids.get((j,)) == indexer_t.get(tuple(S))),
            z3.And(*[c[q] == S[q] for q in range(len(lay.RS))]),
        )
        lemma2 = _forall([j] + S, body2, patterns=[z3.MultiPattern(ids.get((j,)), indexer_t.get(tuple(S)))])
        ctx.prove("lemma:a-row-of-a-state's-segment-belongs-to-that-state", lemma2, "lemma")
        ctx.assume(lemma2, tag="lemma")


@contract("lcm.solve_brute.solve", props=("C01", "C05", "C06", "C11"), scope="forall")
def solve_loop_contract(k):
    """(statement of C01/C05) for EVERY number of periods T >= 1: the result is a list of T arrays in
    chronological order with V[T-1] = E_{T-1}(CCV_{T-1}(no continuation)) and V[t] = E_t(CCV_t(V[t+1])),
    where CCV_t / E_t are the continuous-problem solution and the discrete-problem calculator of period t
    applied to the t-th elements of every per-period list and to the params of the call.
    Proved with an inductive invariant of the backward loop."""
    if k.mode == "native":
        return _solve_loop_native(k)
    import logging

    import z3

    from pyvc.loops import LoopSpec
    from pyvc.symseq import NONE, Obj, Opaque, SymList, SymSeq, to_obj
    from pyvc.values import T as Term

    n = k.int("n_periods", ge=1, size=True)
    nz = n.e if hasattr(n, "e") else z3.IntVal(int(n))
    lists = {nm: SymList(nm, n) for nm in ("state_choice_spaces", "state_indexers", "continuous_choice_grids", "compute_ccv_functions", "emax_calculators")}
    params = Opaque(z3.Const("params", Obj))
    CCV = z3.Function("solve_continuous_problem", *([Obj] * 6), Obj)
    qn_c = "lcm.solve_brute.solve_continuous_problem"

    def ov_cont(clo, args, kwargs):
        ba = clo._c.sig.bind(*args, **kwargs)
        a = ba.arguments
        return Opaque(CCV(*[to_obj(a[x]) for x in ("state_choice_space", "compute_ccv", "continuous_choice_grids", "vf_arr", "state_indexers", "params")]))

    APPLY = z3.Function("apply2!params", Obj, Obj, Obj, Obj)  # emax(ccv, params=params) as built by Opaque.__call__
    el = lambda nm, t: lists[nm].f(t)
    step = lambda t, vnext: APPLY(el("emax_calculators", t), CCV(el("state_choice_spaces", t), el("compute_ccv_functions", t), el("continuous_choice_grids", t), vnext, el("state_indexers", t), params.term), params.term)
    V = z3.Function("V.spec", z3.IntSort(), Obj)
    t = z3.Int("t.spec")
    from pyvc.ctx import cur

    ctx = cur()
    ctx.assume(V(nz - 1) == step(nz - 1, NONE), tag="spec")
    ctx.assume(z3.ForAll([t], z3.Implies(z3.And(t >= 0, t < nz - 1), V(t) == step(t, V(t + 1))), patterns=[V(t)]), tag="spec")

    def as_seq(v):
        return v if isinstance(v, SymSeq) else SymSeq.of_list(v)

    def havoc(kk):
        return {"reversed_solution": SymSeq.fresh("reversed_solution"), "vf_arr": Opaque(z3.Const(ctx.fresh("vf_arr"), Obj))}

    def inv(kk, vals):
        rs = as_seq(vals["reversed_solution"])
        j = z3.Int(ctx.fresh("j"))
        vf = to_obj(vals["vf_arr"])
        return z3.And(
            rs.length == kk,
            z3.ForAll([j], z3.Implies(z3.And(j >= 0, j < kk), rs.get(j) == V(nz - 1 - j))),
            z3.Implies(kk == 0, vf == NONE),
            z3.Implies(kk > 0, vf == V(nz - kk)),
        )

    world = k.world
    world.loop_specs[("lcm.solve_brute.solve", 0)] = LoopSpec(["reversed_solution", "vf_arr"], havoc, inv)
    old = world.overrides.get(qn_c)
    world.overrides[qn_c] = ov_cont
    try:
        out = k.call(params=params, logger=logging.getLogger("pyvc.solve"), **lists)
    finally:
        world.loop_specs.pop(("lcm.solve_brute.solve", 0), None)
        if old is None:
            world.overrides.pop(qn_c, None)
        else:
            world.overrides[qn_c] = old
    if isinstance(out, Raised):
        k.fail("no-exception", repr(out))
        return
    k.ensures("result-is-a-list", isinstance(out, SymSeq))
    if not isinstance(out, SymSeq):
        return
    k.ensures("one-array-per-period", Term(out.length == nz))
    tt = z3.Int("t.goal")
    k.ensures("chronological-order-and-bellman-recursion", Term(z3.ForAll([tt], z3.Implies(z3.And(tt >= 0, tt < nz), out.get(tt) == V(tt)))))


def _solve_loop_native(k):
    """the same recursion on the real function with recording stand-ins for the per-period objects"""
    import logging

    T = k.int("n_periods", ge=1, le=4, size=True)
    mod = k.native.module("lcm.solve_brute")
    real_cont = mod.solve_continuous_problem
    mod.solve_continuous_problem = lambda **kw: ("ccv", kw["state_choice_space"], kw["compute_ccv"], kw["continuous_choice_grids"], kw["vf_arr"], kw["state_indexers"], kw["params"])
    try:
        lists = {nm: [f"{nm}[{t}]" for t in range(T)] for nm in ("state_choice_spaces", "state_indexers", "continuous_choice_grids", "compute_ccv_functions")}
        emax = [(lambda t: (lambda ccv, params: ("V", t, ccv, params)))(t) for t in range(T)]
        out = mod.solve(params="P", emax_calculators=emax, logger=logging.getLogger("pyvc.solve"), **lists)
    finally:
        mod.solve_continuous_problem = real_cont
    want = [None] * T
    nxt = None
    for t in reversed(range(T)):
        want[t] = ("V", t, ("ccv", f"state_choice_spaces[{t}]", f"compute_ccv_functions[{t}]", f"continuous_choice_grids[{t}]", nxt, f"state_indexers[{t}]", "P"), "P")
        nxt = want[t]
    k.ensures("one-array-per-period", len(out) == T)
    k.ensures("chronological-order-and-bellman-recursion", list(out) == want)
