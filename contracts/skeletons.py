"""Model skeletons (DESIGN 2.4 `Skel`): concrete model *structure*; grid bounds/sizes, parameter values,
transition arrays, value arrays and the user functions themselves stay symbolic / uninterpreted."""

from __future__ import annotations

import dataclasses
import itertools

from pyvc import logic as L


class Skel:
    def __init__(self, label, n_periods, states, choices, functions):
        self.label = label
        self.n_periods = n_periods
        self.states = list(states)  # (name, grid) grid: "lin" | "log" | ("disc", n)
        self.choices = list(choices)
        self.functions = list(functions)  # (name, [params], role)
        self.grids = dict(self.states + self.choices)

    # -- derived structure (independent of lcm: used by specifications)
    @property
    def variables(self):
        return [n for n, _ in self.states + self.choices]

    def role(self, fname):
        return {n: r for n, _, r in self.functions}[fname]

    def fparams(self, fname):
        return {n: p for n, p, _ in self.functions}[fname]

    def is_disc(self, v):
        return isinstance(self.grids[v], tuple)

    def n_labels(self, v):
        return self.grids[v][1]

    def names_with_role(self, *roles):
        return [n for n, _, r in self.functions if r in roles]

    def model_params(self, fname):
        """free arguments of a function = not a variable, not a function name, not _period (statement of C07)"""
        fnames = {n for n, _, _ in self.functions}
        return sorted(p for p in self.fparams(fname) if p not in self.variables and p not in fnames and p != "_period")

    def aux_closure(self, names):
        """variables (and _period) that a set of functions depends on, through auxiliary functions"""
        fnames = {n for n, _, _ in self.functions}
        seen, todo, out = set(), list(names), set()
        while todo:
            f = todo.pop()
            if f in seen:
                continue
            seen.add(f)
            for p in self.fparams(f):
                if p in fnames:
                    todo.append(p)
                elif p in self.variables or p == "_period":
                    out.add(p)
        return out

    def restricted(self):
        """variables that are ancestors of some filter (statement of C17)"""
        return self.aux_closure(self.names_with_role("filter")) - {"_period"}

    def canonical_order(self):
        """restricted states, restricted choices, dense discrete states, dense discrete choices,
        continuous states, continuous choices -- each in declaration order (statement of C05)"""
        res = self.restricted()
        st = [n for n, _ in self.states]
        ch = [n for n, _ in self.choices]
        order = [v for v in st if v in res] + [v for v in ch if v in res]
        order += [v for v in st if v not in res and self.is_disc(v)]
        order += [v for v in ch if v not in res and self.is_disc(v)]
        order += [v for v in st if v not in res and not self.is_disc(v)]
        order += [v for v in ch if v not in res and not self.is_disc(v)]
        return order

    def stochastic_states(self):
        return [n[len("next_") :] for n in self.names_with_role("stoch")]

    def permuted(self, tag, states=None, choices=None, functions=None):
        s = [self.states[i] for i in states] if states else self.states
        c = [self.choices[i] for i in choices] if choices else self.choices
        f = [self.functions[i] for i in functions] if functions else self.functions
        return Skel(f"{self.label}~{tag}", self.n_periods, s, c, f)


# ----------------------------------------------------------------------------- the skeleton families
def _base_skeletons():
    D2, D3 = ("disc", 2), ("disc", 3)
    out = []
    out.append(
        Skel(
            "consumption-saving",
            2,
            [("wealth", "lin")],
            [("working", D2), ("consumption", "lin")],
            [
                ("utility", ["consumption", "working", "disutility_of_work"], "utility"),
                ("labor_income", ["working", "wage"], "aux"),
                ("next_wealth", ["wealth", "consumption", "labor_income", "interest_rate"], "next"),
                ("consumption_constraint", ["consumption", "wealth"], "constraint"),
            ],
        )
    )
    out.append(
        Skel(
            "retirement-filter",
            3,
            [("lagged_retirement", D2), ("wealth", "lin")],
            [("retirement", D2), ("consumption", "lin")],
            [
                ("utility", ["consumption", "retirement", "wealth", "lagged_retirement", "delta"], "utility"),
                ("next_lagged_retirement", ["retirement"], "next"),
                ("next_wealth", ["wealth", "consumption", "retirement", "interest_rate"], "next"),
                ("consumption_constraint", ["consumption", "wealth"], "constraint"),
                ("absorbing_retirement_filter", ["retirement", "lagged_retirement"], "filter"),
            ],
        )
    )
    out.append(
        Skel(
            # the same discrete restriction as in "retirement-filter", written as a constraint (C10)
            "retirement-constraint",
            3,
            [("lagged_retirement", D2), ("wealth", "lin")],
            [("retirement", D2), ("consumption", "lin")],
            [
                ("utility", ["consumption", "retirement", "wealth", "lagged_retirement", "delta"], "utility"),
                ("next_lagged_retirement", ["retirement"], "next"),
                ("next_wealth", ["wealth", "consumption", "retirement", "interest_rate"], "next"),
                ("consumption_constraint", ["consumption", "wealth"], "constraint"),
                ("absorbing_retirement_constraint", ["retirement", "lagged_retirement"], "constraint"),
            ],
        )
    )
    out.append(
        Skel(
            "stochastic-health",
            3,
            [("health", D2), ("partner", D2), ("wealth", "lin")],
            [("working", D2), ("consumption", "lin")],
            [
                ("utility", ["consumption", "working", "health", "partner", "gamma"], "utility"),
                ("next_health", ["health", "working", "_period"], "stoch"),
                ("next_partner", ["_period", "working", "partner"], "stoch"),
                ("next_wealth", ["wealth", "consumption", "working", "partner", "gamma"], "next"),
                ("consumption_constraint", ["consumption", "wealth"], "constraint"),
            ],
        )
    )
    out.append(
        Skel(
            "fully-discrete",
            2,
            [("job", D3)],
            [("effort", D2)],
            [
                ("utility", ["effort", "job", "_period", "kappa"], "utility"),
                ("next_job", ["job", "effort"], "next"),
            ],
        )
    )
    out.append(
        Skel(
            "two-continuous-states-log",
            2,
            [("wealth", "log"), ("human_capital", "lin")],
            [("consumption", "lin")],
            [
                ("utility", ["consumption", "human_capital", "wealth"], "utility"),
                ("next_wealth", ["wealth", "consumption", "r"], "next"),
                ("next_human_capital", ["human_capital", "depreciation"], "next"),
            ],
        )
    )
    out.append(
        Skel(
            "period-filter-two-filters",
            3,
            [("age_group", D3), ("married", D2), ("assets", "lin")],
            [("move", D2), ("train", D2), ("spend", "lin")],
            [
                ("utility", ["spend", "move", "train", "age_group", "married", "assets", "theta"], "utility"),
                ("next_age_group", ["age_group", "_period"], "next"),
                ("next_married", ["married"], "next"),
                ("next_assets", ["assets", "spend", "rate"], "next"),
                ("move_filter", ["move", "age_group", "_period"], "filter"),
                ("train_filter", ["train", "age_group"], "filter"),
                ("budget_constraint", ["spend", "assets"], "constraint"),
                ("other_constraint", ["spend", "train"], "constraint"),
            ],
        )
    )
    out.append(
        Skel(
            "two-restricted-states-crossed-filters",
            2,
            # canonical order zone, age, move differs from the alphabetical order age, move, zone, and the
            # first filter mentions the later-declared state first
            [("zone", D2), ("age", D3), ("wealth", "lin")],
            [("move", D2), ("consumption", "lin")],
            [
                ("utility", ["consumption", "move", "zone", "age", "wealth", "eta"], "utility"),
                ("next_zone", ["zone", "move"], "next"),
                ("next_age", ["age"], "next"),
                ("next_wealth", ["wealth", "consumption", "eta"], "next"),
                ("age_filter", ["move", "age"], "filter"),
                ("zone_filter", ["zone", "move", "_period"], "filter"),
                ("budget_constraint", ["consumption", "wealth"], "constraint"),
            ],
        )
    )
    out.append(
        Skel(
            # two unrestricted discrete choices (different sizes) and a continuous choice
            "two-dense-discrete-choices",
            2,
            [("wealth", "lin")],
            [("retire", D2), ("effort", D3), ("consumption", "lin")],
            [
                ("utility", ["consumption", "retire", "effort", "wealth", "chi"], "utility"),
                ("next_wealth", ["wealth", "consumption", "effort", "chi"], "next"),
                ("consumption_constraint", ["consumption", "wealth"], "constraint"),
            ],
        )
    )
    out.append(
        Skel(
            "discrete-choices-only",
            2,
            [("stock", "lin")],
            [("harvest", D3)],
            [
                ("utility", ["harvest", "stock", "price"], "utility"),
                ("next_stock", ["stock", "harvest", "growth"], "next"),
            ],
        )
    )
    out.append(
        Skel(
            "two-continuous-choices",
            2,
            [("wealth", "lin"), ("employed", D2)],
            [("consumption", "lin"), ("leisure", "lin")],
            [
                ("utility", ["consumption", "leisure", "employed", "wealth", "alpha"], "utility"),
                ("next_wealth", ["wealth", "consumption", "leisure", "alpha"], "next"),
                ("next_employed", ["employed", "_period"], "stoch"),
                ("time_constraint", ["leisure", "employed"], "constraint"),
            ],
        )
    )
    out.append(
        Skel(
            "mixed-discrete-choices",
            2,
            [("lagged_status", D2), ("wealth", "lin")],
            [("status", D2), ("hours", D3), ("consumption", "lin")],
            [
                ("utility", ["consumption", "status", "hours", "wealth", "lagged_status", "phi"], "utility"),
                ("next_lagged_status", ["status"], "next"),
                ("next_wealth", ["wealth", "consumption", "hours", "phi"], "next"),
                ("status_filter", ["status", "lagged_status"], "filter"),
                ("consumption_constraint", ["consumption", "wealth"], "constraint"),
            ],
        )
    )
    return out


def aux_filter_skeleton():
    """a filter that depends on the period through an auxiliary function (accepted by the validators;
    fails when the state space is built: known finding F8, C12)"""
    D2, D3 = ("disc", 2), ("disc", 3)
    return Skel(
        "filter-through-auxiliary-function",
        2,
        [("age_group", D3), ("assets", "lin")],
        [("move", D2), ("spend", "lin")],
        [
            ("utility", ["spend", "move", "age_group", "assets", "theta"], "utility"),
            ("next_age_group", ["age_group", "_period"], "next"),
            ("next_assets", ["assets", "spend", "rate"], "next"),
            ("eligible", ["age_group", "_period"], "aux"),
            ("move_filter", ["move", "eligible"], "filter"),
        ],
    )


def filter_only_state_skeleton():
    """a state that enters only a filter and its own law of motion (supported by the statement of C01,
    accepted by the validators; the last-period functions do not take it: known finding F9, C12)"""
    D2 = ("disc", 2)
    return Skel(
        "state-only-in-filter",
        2,
        [("lagged_retirement", D2), ("wealth", "lin")],
        [("retirement", D2), ("consumption", "lin")],
        [
            ("utility", ["consumption", "retirement", "wealth", "delta"], "utility"),
            ("next_lagged_retirement", ["retirement"], "next"),
            ("next_wealth", ["wealth", "consumption", "retirement", "interest_rate"], "next"),
            ("absorbing_retirement_filter", ["retirement", "lagged_retirement"], "filter"),
        ],
    )


def transition_only_state_skeleton():
    """a state used only by transition functions (known finding F5, C12)"""
    return Skel(
        "state-only-in-transitions",
        2,
        [("wealth", "lin"), ("z", "lin")],
        [("consumption", "lin")],
        [
            ("utility", ["consumption", "wealth"], "utility"),
            ("next_wealth", ["wealth", "consumption", "z"], "next"),
            ("next_z", ["z"], "next"),
        ],
    )


def unequal_stochastic_skeleton():
    """two stochastic states with different numbers of labels, laws of motion listed in the opposite
    order of the states (C12: an accepted specification must solve whatever the order of the functions)"""
    D2, D3 = ("disc", 2), ("disc", 3)
    return Skel(
        "stochastic-unequal-labels-functions-reversed",
        2,
        [("health", D2), ("skill", D3), ("wealth", "lin")],
        [("consumption", "lin")],
        [
            ("next_wealth", ["wealth", "consumption", "skill"], "next"),
            ("next_skill", ["skill", "_period"], "stoch"),
            ("next_health", ["health"], "stoch"),
            ("utility", ["consumption", "health", "skill", "wealth"], "utility"),
        ],
    )


def skeletons(tier):
    base = _base_skeletons()
    if tier == "quick":
        # one permuted declaration order already in the quick tier (two stochastic states whose laws of
        # motion are listed in the opposite order of the states)
        sh = [x for x in base if x.label == "stochastic-health"][0]
        return base + [
            sh.permuted("functions-reversed", functions=list(reversed(range(len(sh.functions))))),
            # stochastic states declared in non-alphabetical order (partner, health)
            sh.permuted("states-reversed", states=list(reversed(range(len(sh.states))))),
        ]
    out = list(base)
    for s in base:
        ns, nc, nf = len(s.states), len(s.choices), len(s.functions)
        if ns > 1:
            out.append(s.permuted("states-reversed", states=list(reversed(range(ns)))))
        if nc > 1:
            out.append(s.permuted("choices-reversed", choices=list(reversed(range(nc)))))
        out.append(s.permuted("functions-reversed", functions=list(reversed(range(nf)))))
    return out


def by_label(label, tier="thorough"):
    for s in skeletons(tier):
        if s.label == label:
            return s
    raise KeyError(label)


# ----------------------------------------------------------------------------- building a model from a skeleton
class Built:
    pass


def build(k, skel: Skel):
    """user Model for the skeleton, in the mode of `k` (symbolic: shadow classes and uninterpreted
    functions; native: the real classes and numeric test functions)"""
    b = Built()
    b.skel = skel
    b.grid_syms = {}
    b.funcs = {}
    DiscreteGrid = k.fn("lcm.grids.DiscreteGrid")
    LinspaceGrid = k.fn("lcm.grids.LinspaceGrid")
    LogspaceGrid = k.fn("lcm.grids.LogspaceGrid")
    Model = k.fn("lcm.user_model.Model")
    stochastic = k.fn("lcm.mark.stochastic")

    def grid(name, g):
        if isinstance(g, tuple):
            cat = dataclasses.make_dataclass("Cat_" + name, [(f"l{i}", int, i) for i in range(g[1])])
            b.grid_syms[name] = ("disc", g[1])
            return DiscreteGrid(cat)
        start, stop = k.real(f"{name}.start"), k.real(f"{name}.stop")
        n = k.int(f"{name}.n", ge=2, le=4, size=True)
        if k.mode == "native":
            lo = abs(start) + (0.5 if g == "log" else 0.0)
            start, stop = (lo, lo + abs(stop) + 1.0) if g == "log" else (min(start, stop) - 0.5, max(start, stop) + 0.5)
        else:
            k.requires(start < stop)
            if g == "log":
                k.requires(start > 0)
        b.grid_syms[name] = (g, start, stop, n)
        return (LinspaceGrid if g == "lin" else LogspaceGrid)(start=start, stop=stop, n_points=n)

    states = {n: grid(n, g) for n, g in skel.states}
    choices = {n: grid(n, g) for n, g in skel.choices}
    functions = {}
    for name, params, role in skel.functions:
        ret = "float"
        n_labels = None
        if role in ("constraint", "filter"):
            ret = "bool"
        if role in ("next", "stoch") and skel.is_disc(name[len("next_") :]):
            ret = "int"
            n_labels = skel.n_labels(name[len("next_") :])
        f = k.modelfunc(name, params, ret, n_labels)
        b.funcs[name] = f
        functions[name] = stochastic(f) if role == "stoch" else f
    b.model = Model(n_periods=skel.n_periods, functions=functions, choices=choices, states=states)
    if getattr(skel, "filters_may_reject_everything", False):
        return b  # structures of the rejection rules: no hypothesis about their filters
    if k.mode == "native":
        # sampled filters that leave a period without any admissible combination: not a supported model
        from .solve import skip_unsupported_filters

        skip_unsupported_filters(k, b, skel)
    elif skel.names_with_role("filter"):
        # precondition of every claim about a model with filters (since the fix of F11 the library rejects
        # the opposite with a ValueError when the spaces are created): in every period the filters admit at
        # least one combination of restricted states and choices
        import itertools

        from pyvc import logic as L

        from .bellman import Layout
        from .specmodel import spec_eval

        lay = Layout(skel)
        for t in range(skel.n_periods):
            alts = []
            for combo in itertools.product(*[range(skel.n_labels(v)) for v in lay.RS + lay.RC]):
                env = {**dict(zip(lay.RS + lay.RC, combo)), "_period": t}
                alts.append(L.And(*[spec_eval(k, b, f, env) for f in skel.names_with_role("filter")]))
            k.requires(L.Or(*alts))
    return b


def symbolic_params(k, template, prefix="p"):
    """a params dict of the template's shape with arbitrary (symbolic / random) leaves"""
    out = {}
    for key, v in template.items():
        name = f"{prefix}.{key}"
        if isinstance(v, dict):
            out[key] = symbolic_params(k, v, name)
        elif hasattr(v, "shape") and len(v.shape) > 0:
            shp = [int(d) for d in v.shape] if k.mode == "native" else list(v.shape)
            arr = k.array(name, shp, "float", values=[0.25, 0.5, 1.0, 1.0])
            if k.mode == "native":
                arr = arr / arr.sum(axis=-1, keepdims=True)  # transition rows are probability vectors
            out[key] = arr
        else:
            out[key] = k.real(name)
    return out
