"""Contracts on the simulation path (C02, C03, C04, C06, C08, C13): the real `simulate` of every skeleton,
for ANY number of agents, any initial states (on or off the grid), any value arrays and parameters."""

from __future__ import annotations

from pyvc import logic as L
from pyvc.contract import Raised, contract

from .bellman import Bellman, Layout, install_overrides
from .skeletons import build, skeletons, symbolic_params
from .solve import OpaqueUF, install_opaque_uf, record_spaces
from .specmodel import spec_eval


class SimInst:
    def __init__(self, skel, variant=""):
        self.skel, self.variant = skel, variant
        self.label = skel.label + (f",{variant}" if variant else "")


def sim_family(tier):
    out = [SimInst(s) for s in skeletons(tier)]
    base = skeletons("quick")
    out += [SimInst(base[0], "continuous-initial-states-given-as-integers")]
    if tier != "quick":
        out += [SimInst(s, "initial-states-keys-reversed") for s in base[:4]]
        out += [SimInst(s, "continuous-initial-states-given-as-integers") for s in base[1:5]]
    return out


class Sim:
    pass


class BoundedOnly(Exception):
    pass


# restricted-choice skeletons for which the panel / law-of-motion / targets contracts go through deductively
# (create_choice_segments is used through its contract); the others stay bounded stand-ins
DEDUCTIVE_WITH_RESTRICTED_CHOICES = ("retirement-filter", "two-restricted-states-crossed-filters", "mixed-discrete-choices")
# ... and for which the decision contract (C02) goes through as well: segment_argmax is used through its contract
# (C18) with an explicit representative row per agent, and the "supported" hypothesis is cut at "finite value"
DEDUCTIVE_DECISIONS_WITH_RESTRICTED_CHOICES = ("retirement-filter", "two-restricted-states-crossed-filters")


def bounded_only_if_restricted_choices(k, skel, clauses, deductive_ok=False, deductive_set=None):
    """With filter-restricted choices the simulation builds a data state-choice space whose row <-> (agent,
    combination) correspondence and segment numbering need counting arguments that were not mechanised:
    these skeletons are checked by the bounded stand-in only (real code, sampled small inputs), and their
    clauses are never counted as proved."""
    if k.mode == "native" or not Layout(skel).RC:
        return False
    import os

    if os.environ.get("PYVC_FULL_SIM"):
        return False
    if deductive_ok and deductive_set is None and skel.label.split("~")[0] in DEDUCTIVE_WITH_RESTRICTED_CHOICES:
        return False
    if deductive_ok and deductive_set is not None and skel.label in deductive_set:
        return False  # the declared order only: the permuted variants of the thorough tier stay bounded stand-ins
    from pyvc.ctx import cur

    cur().memo.setdefault("bounded_clauses", set()).update(clauses)
    return True


def install_choice_segments_contract(k, world):
    """contract substitution for create_choice_segments (its own contract: `choice_segments_contract`):
    requires that every agent keeps at least one (agent, combination) pair -- an obligation at the call site
    -- and then has one segment per agent"""
    import z3

    from pyvc.ctx import cur
    from pyvc.values import conc, zdim

    qn = "lcm.simulate.create_choice_segments"
    old = world.overrides.get(qn)

    def ov(clo, args, kwargs):
        ba = clo._c.sig.bind(*args, **kwargs)
        mask, n = ba.arguments["mask"], ba.arguments["n_sparse_states"]
        del world.overrides[qn]
        try:
            out = clo(*args, **kwargs)
        finally:
            world.overrides[qn] = ov
        ctx = cur()
        N = mask.zshape[0]
        fac = ctx.memo.get("products", {}).get(N.hash())
        C = None
        if fac is not None and len(fac) == 2:
            C = conc(fac[1])
        if C is None:
            return out  # not the (agents x combinations) layout: keep the body's result
        i = z3.Int(ctx.fresh("agent"))
        nz = zdim(n)
        from pyvc.stubs.jnp_impl import _forall

        # facts of integer arithmetic about the pair numbering p = i * C + c (valid; stated to help the solver)
        for c in range(C):
            p_ = i * C + c
            ctx.assume(z3.ForAll([i], z3.And(p_ / C == i, p_ % C == c)), tag="arith:div-mod-of-pair-number")

        ctx.prove_then_assume("every-agent-keeps-at-least-one-admissible-combination", _forall([i], z3.Implies(z3.And(i >= 0, i < nz), z3.Or(*[mask.get((i * C + c,)) for c in range(C)])), dims=[nz]), "pre")
        # ground instances of the mask-selection axiom at the pairs of agent 0 (the data space has a row)
        from pyvc.indexing import mask_selector

        ms = mask_selector(mask)
        for c in range(C):
            pc = z3.IntVal(c)
            ctx.assume(z3.Implies(z3.And(pc < N, mask.get((pc,))), z3.And(ms.rank([pc]) >= 0, ms.rank([pc]) < ms.K)), tag="mask-select")
        # explicit witness for "every segment is non-empty": the row of the first admissible combination of
        # agent s (a term, no existential); segment_argmax's precondition is discharged with it at its call site
        seg_ids = out["segment_ids"]

        def representative(s_):
            term = None
            for c in reversed(range(C)):
                pc = s_ * C + c
                r_ = ms.rank([pc])
                term = r_ if term is None else z3.If(mask.get((pc,)), r_, term)
            return term

        seg_ids._segment_witness = representative
        return {"segment_ids": seg_ids, "num_segments": n}

    world.overrides[qn] = ov

    def restore():
        if old is None:
            world.overrides.pop(qn, None)
        else:
            world.overrides[qn] = old

    return restore


def install_segment_argmax_contract(k, world):
    """contract substitution for lcm.argmax.segment_argmax (its own contract: contracts/argmax.py, C18): the
    preconditions -- ids in range, sorted, every segment non-empty -- are obligations at the call site (the
    last with the explicit representative row recorded by the create_choice_segments contract); the result
    is then any pair (rows, maxima) with: the row lies in its segment, attains the segment maximum, which
    bounds every row of the segment.  Without a recorded representative the body is executed instead."""
    import z3

    from pyvc.ctx import cur
    from pyvc.stubs.jnp_impl import _fn, _forall, inrange, sort_of
    from pyvc.values import SymArray, asarray, zdim

    qn = "lcm.argmax.segment_argmax"
    old = world.overrides.get(qn)

    def ov(clo, args, kwargs):
        ba = clo._c.sig.bind(*args, **kwargs)
        data, ids, num = asarray(ba.arguments["data"]), ba.arguments["segment_ids"], ba.arguments["num_segments"]
        rep = getattr(ids, "_segment_witness", None)
        if rep is None or data._dtype != "float":
            del world.overrides[qn]
            try:
                return clo(*args, **kwargs)
            finally:
                world.overrides[qn] = ov
        ctx = cur()
        ids = asarray(ids)
        n, numz = data.zshape[0], zdim(num)
        nm = ctx.fresh("segargmax")
        jv, j2, sv = z3.Int(nm + ".j"), z3.Int(nm + ".j2"), z3.Int(nm + ".s")
        ctx.prove_then_assume("segment_argmax-lengths", data.zshape[0] == ids.zshape[0], "pre")
        ctx.prove_then_assume("segment_argmax-ids-in-range", _forall([jv], z3.Implies(z3.And(jv >= 0, jv < n), z3.And(ids.get((jv,)) >= 0, ids.get((jv,)) < numz)), dims=[n]), "pre")
        ctx.prove_then_assume("segment_argmax-ids-sorted", _forall([jv, j2], z3.Implies(z3.And(0 <= jv, jv <= j2, j2 < n), ids.get((jv,)) <= ids.get((j2,))), dims=[n, n]), "pre")
        w = rep(sv)
        ctx.prove_then_assume("segment_argmax-every-segment-is-non-empty", _forall([sv], z3.Implies(z3.And(sv >= 0, sv < numz), z3.And(w >= 0, w < n, ids.get((w,)) == sv)), dims=[numz]), "pre")
        tr = data.zshape[1:]
        Tt = [z3.Int(f"{nm}.t{q}") for q in range(len(tr))]
        A = _fn(nm + ".row", 1 + len(tr), z3.IntSort())
        M = _fn(nm + ".max", 1 + len(tr), sort_of("float"))
        row, mx = A(sv, *Tt), M(sv, *Tt)
        ctx.assume(_forall([sv] + Tt, z3.Implies(z3.And(sv >= 0, sv < numz, inrange(tr, Tt)), z3.And(row >= 0, row < n, ids.get((row,)) == sv, data.get((row, *Tt)) == mx)), patterns=[row], dims=[numz] + list(tr)), tag="contract:segment_argmax")
        ctx.assume(_forall([jv] + Tt, z3.Implies(z3.And(jv >= 0, jv < n, inrange(tr, Tt)), data.get((jv, *Tt)) <= M(ids.get((jv,)), *Tt)), dims=[n] + list(tr)), tag="contract:segment_argmax")
        ctx.trusted.add("lcm.argmax.segment_argmax used through its contract (decided under C18)")
        return SymArray((numz, *tr), lambda idx: A(*idx), "int"), SymArray((numz, *tr), lambda idx: M(*idx), "float")

    world.overrides[qn] = ov

    def restore():
        if old is None:
            world.overrides.pop(qn, None)
        else:
            world.overrides[qn] = old

    return restore


def install_period_cut(k, world, S, skel):
    """cut point at the head of simulate's period loop: from period 1 on, the loop-carried `states` are
    replaced by arbitrary arrays of the right length whose discrete entries are valid labels (the invariant,
    which the real next states must satisfy: an obligation per period).  Every period is then verified on its
    own, for any incoming states."""
    import z3

    from pyvc.loops import CutSpec

    S.incoming, S.used, S.outcome = {}, {}, {}

    def inv(kk, vals):
        st = vals["states"]
        conds = []
        for s_, _g in skel.states:
            arr = st.get(s_)
            if arr is None or not hasattr(arr, "zshape"):
                return z3.BoolVal(False)
            conds.append(arr.zshape[0] == S.n.e)
            if skel.is_disc(s_):
                i = z3.Int(f"inv.{s_}.{kk}")
                conds.append(z3.ForAll([i], z3.Implies(z3.And(i >= 0, i < S.n.e), z3.And(arr.get((i,)) >= 0, arr.get((i,)) < skel.n_labels(s_)))))
        return z3.And(*conds)

    def havoc(kk, vals):
        S.incoming[kk] = vals["states"]
        if kk == 0:
            S.used[0] = vals["states"]
            return None
        new = {}
        for s_ in vals["states"]:
            new[s_] = k.array(f"S{kk}.{s_}", [S.n], "int" if skel.is_disc(s_) else "float")
        S.used[kk] = new
        return {"states": new}

    S.period = {}

    def after(kk, vals):
        S.outcome[kk] = vals["states"]
        S.period[kk] = {"value": vals["value"], "choices": vals["choices"]}

    world.loop_specs[("lcm.simulate.simulate", 0)] = CutSpec(["states"], havoc, inv, after, name="simulate-period-loop", observe=("value", "choices"))

    def restore():
        world.loop_specs.pop(("lcm.simulate.simulate", 0), None)

    return restore


def run_simulation(k, inst, targets=None, via_solve_model=False, cut=True):
    """the real get_lcm_function(model, 'simulate') and the real simulate on symbolic inputs"""
    skel = inst.skel
    S = Sim()
    S.skel = skel
    S.cut = False
    sym = k.mode != "native"
    restores = []
    if sym:
        restores.append(install_overrides(k, k.world))
        restores.append(install_choice_segments_contract(k, k.world))
        restores.append(install_segment_argmax_contract(k, k.world))
        S.opaque, r2 = install_opaque_uf(k, k.world, skel)
        restores.append(r2)
        S.spaces, r3 = record_spaces(k, k.world)
        restores.append(r3)
    else:
        S.opaque, S.spaces = {}, {}
    try:
        b = build(k, skel)
        S.b = b
        im = k.call_fn(k.fn("lcm.input_processing.process_model.process_model"), b.model)
        if isinstance(im, Raised):
            return im
        S.im = im
        got = k.call_fn(k.fn("lcm.entry_point.get_lcm_function"), model=b.model, targets="simulate", jit=False)
        if isinstance(got, Raised):
            return got
        sim, template = got
        S.sim = sim
        P = symbolic_params(k, template)
        S.P = P
        T = skel.n_periods
        lay = Layout(skel)
        S.lay = lay
        n = k.int("n_agents", ge=1, le=3, size=True)
        S.n = n
        init = {}
        state_names = [s for s, _ in skel.states]
        if inst.variant == "initial-states-keys-reversed":
            state_names = list(reversed(state_names))
        for s in state_names:
            if skel.is_disc(s):
                nl = skel.n_labels(s)
                init[s] = k.array(f"init.{s}", [n], "int", gen=lambda rng, shp, nl=nl: [rng.randrange(nl) for _ in range(shp[0])])
                if sym:
                    k.requires(L.forall([n], lambda ix, s=s, nl=nl: L.And(k.at(init[s], ix) >= 0, k.at(init[s], ix) < nl)))
            elif inst.variant == "continuous-initial-states-given-as-integers":
                init[s] = k.array(f"init.{s}", [n], "int", gen=lambda rng, shp: [rng.randrange(0, 3) for _ in range(shp[0])])
            else:
                g = b.grid_syms[s]
                init[s] = k.array(f"init.{s}", [n], "float", gen=lambda rng, shp, g=g: [g[1] + (g[2] - g[1]) * rng.random() for _ in range(shp[0])])
        S.init = init
        # value arrays "in use": arbitrary arrays of the documented layout (symbolic) / the solution (native)
        if sym:
            vf = []
            for t in range(T):
                sp = S.spaces.get(t)
                head = [sp[3]["num_segments"]] if lay.RS else []
                shape = head + [k.shape(im.grids[v])[0] for v in lay.DS + lay.CS]
                vf.append(k.array(f"V{t}", shape, "float"))
        else:
            solve, _ = k.call_fn(k.fn("lcm.entry_point.get_lcm_function"), model=b.model, targets="solve", jit=False)
            sol = k.call_fn(solve, P)
            import numpy as np

            from pyvc.contract import SkipInstance

            if isinstance(sol, Raised) or not all(np.all(np.isfinite(np.asarray(x))) for x in sol):
                # supported models have a feasible choice in every grid state and finite values
                raise SkipInstance("the solution of the sampled model is not finite")
            vf = k.native.to_native([x for x in sol])
        S.vf = vf
        seed = k.int("seed", ge=0, le=5)
        S.seed = seed
        if sym and cut == "observe":
            # no havoc: only observe the keys handed to the stochastic transitions in every period
            from pyvc.loops import CutSpec

            S.keys_by_period = {}
            k.world.loop_specs[("lcm.simulate.simulate", 0)] = CutSpec([], lambda kk, vals: None, None, lambda kk, vals: S.keys_by_period.__setitem__(kk, dict(vals["sim_keys"])), name="simulate-period-loop", observe=("sim_keys",))
            restores.append(lambda: k.world.loop_specs.pop(("lcm.simulate.simulate", 0), None))
        elif sym and cut:
            restores.append(install_period_cut(k, k.world, S, skel))
            S.cut = True
        feasible_choice_exists(k, S)
        kwargs = dict(initial_states=init, additional_targets=targets, seed=seed)
        if via_solve_model:
            S.solve_calls = []

            def solve_model(params):
                S.solve_calls.append(params)
                return list(vf)

            frame = k.call_fn(sim, P, solve_model=solve_model, **kwargs)
        else:
            frame = k.call_fn(sim, P, vf_arr_list=list(vf), **kwargs)
        S.frame = frame
        if sym:
            from pyvc.ctx import cur

            S.array_applications_in_targets = [e["name"] for e in cur().events if e.get("kind") == "array-application" and e.get("in_targets")]
    finally:
        for r in reversed(restores):
            r()
    if isinstance(frame, Raised):
        return frame
    S.col = lambda name: _column(k, frame, name)
    S.pos = lambda t, i: t * n + i
    return S


def _column(k, frame, name):
    if k.mode == "native":
        import numpy as np

        return np.asarray(frame[name].values)
    return frame.columns[name]


def _states_at(k, S, t, i):
    """agent i's states in period t: the period's own arrays when the loop is cut (C13.panel proves that the
    frame rows are these entries), else the frame row"""
    if getattr(S, "cut", False):
        return {s: k.at(S.used[t][s], (i,)) for s, _ in S.skel.states}
    return {s: k.at(S.col(s), (S.pos(t, i),)) for s, _ in S.skel.states}


def _choices_at(k, S, t, i):
    if getattr(S, "cut", False):
        return {c: k.at(S.period[t]["choices"][c], (i,)) for c, _ in S.skel.choices}
    return {c: k.at(S.col(c), (S.pos(t, i),)) for c, _ in S.skel.choices}


def _value_at(k, S, t, i):
    if getattr(S, "cut", False):
        return k.at(S.period[t]["value"], (i,))
    return k.at(S.col("value"), (S.pos(t, i),))


def feasible_choice_exists(k, S):
    """supported inputs: in every period every combination of restricted-state labels admits a filter-passing
    choice (otherwise the segment numbering of the simulation breaks: DESIGN 8-F6)"""
    skel, lay = S.skel, S.lay
    if not lay.RC:
        return
    import itertools

    if k.mode == "native":
        from pyvc.contract import SkipInstance

        for t in range(skel.n_periods):
            for rs in itertools.product(*[range(skel.n_labels(v)) for v in lay.RS]):
                any_ok = False
                for rc in itertools.product(*[range(skel.n_labels(v)) for v in lay.RC]):
                    env = {**dict(zip(lay.RS, rs)), **dict(zip(lay.RC, rc)), "_period": t}
                    if all(bool(spec_eval(k, S.b, f, env)) for f in skel.names_with_role("filter")):
                        any_ok = True
                if not any_ok:
                    raise SkipInstance("a restricted state without admissible choice")
        return

    # the same precondition with the restricted-state labels universally quantified (the form in which it is
    # used for an agent's symbolic state)
    import z3

    from pyvc.values import T as _T

    vs = [z3.Int(f"any.{v}") for v in lay.RS]
    for t in range(skel.n_periods):
        alts = []
        for rc in itertools.product(*[range(skel.n_labels(v)) for v in lay.RC]):
            env = {**{v: _T(x) for v, x in zip(lay.RS, vs)}, **dict(zip(lay.RC, rc)), "_period": t}
            alts.append(L._b(L.And(*[spec_eval(k, S.b, f, env) for f in skel.names_with_role("filter")])))
        rng = z3.And(*[z3.And(x >= 0, x < skel.n_labels(v)) for v, x in zip(lay.RS, vs)]) if vs else z3.BoolVal(True)
        body = z3.Implies(rng, z3.Or(*alts))
        from pyvc.ctx import cur

        cur().assume(z3.ForAll(vs, body) if vs else body, tag="requires")


# ----------------------------------------------------------------------------- C13: the panel
@contract("lcm.simulate.simulate", cid="C13.panel", family=sim_family, props=("C13", "C08"))
def panel_contract(k, inst):
    """(statement of C13) the result is a frame with exactly n_periods * n_agents rows indexed by (period,
    initial_state_id) in period-major order, one column for the value, one per choice, one per state and
    '_period'; every column has that many rows; '_period' of row (t, i) is t; the states of row (0, i) are
    the supplied initial states of agent i."""
    if bounded_only_if_restricted_choices(k, inst.skel, {"simulation-runs", "columns", "row-count", "index-is-period-major-product", "period-column", "period-0-states-are-the-initial-states"}, deductive_ok=True):
        return
    S = run_simulation(k, inst)
    if isinstance(S, Raised):
        k.fail("simulation-runs", repr(S))
        return
    feasible_choice_exists(k, S)
    skel, n, T = S.skel, S.n, S.skel.n_periods
    want_cols = {"value", "_period", *[s for s, _ in skel.states], *[c for c, _ in skel.choices]}
    frame = S.frame
    if k.mode == "native":
        k.ensures("columns", set(frame.columns) == want_cols)
        k.ensures("row-count", len(frame) == T * n)
        k.ensures("index-is-period-major-product", list(frame.index.names) == ["period", "initial_state_id"] and list(frame.index) == [(t, i) for t in range(T) for i in range(n)])
    else:
        k.ensures("columns", set(frame.columns) == want_cols)
        idx = frame.index
        k.ensures("index-is-period-major-product", getattr(idx, "names", None) == ["period", "initial_state_id"] and len(idx.extents) == 2 and bool(L.eq(idx.extents[0], T)) and L.eq(idx.extents[1], n))
        for c in sorted(want_cols):
            shp = k.shape(frame.columns[c])
            k.ensures(f"column-length[{c}]", L.And(len(shp) == 1, L.eq(shp[0], T * n) if len(shp) == 1 else False))
    for t in range(T):
        for (i,) in k.indices([n], name=f"agent{t}_"):
            k.ensures("period-column", L.eq(k.at(S.col("_period"), (S.pos(t, i),)), t))
            if S.cut:
                # row (t, i) of the frame is entry i of what period t computed (value, choices) and ran on (states)
                k.ensures("row-holds-the-period's-value", L.eq(k.at(S.col("value"), (S.pos(t, i),)), k.at(S.period[t]["value"], (i,))))
                for c, _ in skel.choices:
                    k.ensures(f"row-holds-the-period's-choices[{c}]", L.eq(k.at(S.col(c), (S.pos(t, i),)), k.at(S.period[t]["choices"][c], (i,))))
                for s_, _ in skel.states:
                    k.ensures(f"row-holds-the-period's-states[{s_}]", L.eq(k.at(S.col(s_), (S.pos(t, i),)), k.at(S.used[t][s_], (i,))))
    for (i,) in k.indices([n], name="agent_init_"):
        for s, _ in skel.states:
            k.ensures(f"period-0-states-are-the-initial-states[{s}]", L.eq(k.at(S.col(s), (S.pos(0, i),)), k.at(S.init[s], (i,))))


# ----------------------------------------------------------------------------- C03: law of motion
@contract("lcm.simulate.simulate", cid="C03.law-of-motion", family=sim_family, props=("C03", "C08", "C04"))
def law_of_motion_contract(k, inst):
    """(statement of C03) the states of agent i in period t+1 are the model's transition functions evaluated
    at the SAME agent's period-t states, reported choices, the period index t and the parameters (own
    parameters only); for a stochastic state the new value is a label of the state's grid that has positive
    probability in the transition row selected by the agent's period-t dependency variables."""
    if bounded_only_if_restricted_choices(k, inst.skel, {"simulation-runs", "next-state-is-transition-function-of-own-period-t-row", "stochastic-next-state-is-a-label-of-positive-probability"}, deductive_ok=True):
        return
    S = run_simulation(k, inst)
    if isinstance(S, Raised):
        k.fail("simulation-runs", repr(S))
        return
    feasible_choice_exists(k, S)
    skel, n, T = S.skel, S.n, S.skel.n_periods
    stoch = skel.stochastic_states()
    if S.cut:
        for t in range(T - 1):
            k.ensures(f"period-{t + 1}-starts-from-the-states-computed-in-period-{t}", S.incoming.get(t + 1) is S.outcome.get(t) and S.outcome.get(t) is not None)
            for (i,) in k.indices([n], name=f"row{t}_"):
                for s, _ in skel.states:
                    k.ensures(f"row-of-period-{t + 1}-holds-the-states-the-period-ran-on[{s}]", L.eq(k.at(S.col(s), (S.pos(t + 1, i),)), k.at(S.used[t + 1][s], (i,))))
    for t in range(T - 1):
        for (i,) in k.indices([n], name=f"agent{t}_"):
            env = {**_states_at(k, S, t, i), **_choices_at(k, S, t, i), "_period": t}
            for s, _ in skel.states:
                # symbolic: the states computed at the end of iteration t (the loop-carried value that
                # iteration t + 1 starts from: checked below); native: the row of period t + 1
                new = k.at(S.outcome[t][s], (i,)) if S.cut else k.at(S.col(s), (S.pos(t + 1, i),))
                if s not in stoch:
                    want = spec_eval(k, S.b, "next_" + s, env, S.P)
                    k.ensures(f"next-state-is-transition-function-of-own-period-t-row[{s}]", k.close(new, want))
                else:
                    deps = skel.fparams("next_" + s)
                    nl = skel.n_labels(s)
                    row = lambda lab: k.at(S.P["shocks"][s], (*[env[d] for d in deps], lab))
                    k.ensures(
                        f"stochastic-next-state-is-a-label-of-positive-probability[{s}]",
                        L.exists([nl], lambda lab: L.And(L.eq(new, k.at(S.im.grids[s], lab)), row(lab[0]) > 0)),
                    )


# ----------------------------------------------------------------------------- C02: decisions
@contract("lcm.simulate.simulate", cid="C02.decisions", family=sim_family, props=("C02", "C08", "C06"))
def decisions_contract(k, inst):
    """(statement of C02) in every period and for every agent (on or off the state grid): the reported
    choices are grid values; they pass all filters and constraints at the agent's current state; the reported
    value equals utility + beta * E[V_{t+1}] of the reported choices (with the value arrays passed in, shifted by
    one period); and no grid choice combination that passes filters and constraints has a larger objective."""
    if bounded_only_if_restricted_choices(k, inst.skel, {"simulation-runs", "reported-choice-is-a-grid-value", "reported-choices-pass-filters-and-constraints", "reported-value-is-the-objective-of-the-reported-choices", "no-feasible-grid-choice-is-better"}, deductive_ok=True, deductive_set=DEDUCTIVE_DECISIONS_WITH_RESTRICTED_CHOICES):
        return
    S = run_simulation(k, inst)
    if isinstance(S, Raised):
        k.fail("simulation-runs", repr(S))
        return
    feasible_choice_exists(k, S)
    skel, n, T, lay = S.skel, S.n, S.skel.n_periods, S.lay
    choice_vars = lay.RC + lay.DC + lay.CC
    for t in range(T):
        vf_next = S.vf[t + 1] if t < T - 1 else None
        ind_next = None
        if k.mode != "native":
            sp_n = S.spaces.get(t + 1) if t < T - 1 else None
            ind_next = sp_n[2].get("state_indexer") if sp_n else None
            o = S.opaque.get(t)
            k.ensures(f"uses-the-function-generated-for-period[{t}]", o is not None and len(o.helpers_seen) >= 1)
            if o is None or not o.helpers_seen:
                return
            seen = o.helpers_seen[-1]
            k.ensures(f"passes-the-params-of-the-call[{t}]", seen.get("params") is S.P)
            if t < T - 1:
                # the value arrays are shifted by one period: period t reads the array of period t + 1
                k.ensures(f"reads-the-value-array-of-the-next-period[{t}]", seen.get("vf_arr") is S.vf[t + 1])
                if "state_indexer" in seen:
                    k.ensures(f"uses-the-indexer-of-the-next-period[{t}]", seen["state_indexer"] is ind_next)
            objective_of = lambda env, o=o: o.terms(env)
        else:
            css = k.fn("lcm.state_space.create_state_choice_space")
            if t < T - 1 and lay.RS:
                sp_n = css(model=S.im, period=t + 1, is_last_period=(t + 1 == T - 1), jit_filter=False)
                ind_next = sp_n[2].get("state_indexer")
            bm = Bellman(k, S.b, S.im, t, S.P, vf_next, ind_next)
            objective_of = lambda env, bm=bm: bm.q(env)
        bmf = Bellman(k, S.b, S.im, t, S.P, vf_next, ind_next)
        for (i,) in k.indices([n], name=f"agent{t}_"):
            states = _states_at(k, S, t, i)
            chosen = _choices_at(k, S, t, i)
            value = _value_at(k, S, t, i)
            for c in choice_vars:
                size = k.shape(S.im.grids[c])[0]
                k.ensures(f"reported-choice-is-a-grid-value[{c},t={t}]", L.exists([size], lambda j, c=c: L.eq(chosen[c], k.at(S.im.grids[c], j))))
            env = {**states, **chosen, "_period": t}
            q, feas = objective_of(env)
            ok = L.And(bmf.filters(env), True if feas is None else feas)
            # several continuous choices are enumerated by their flattened (row-major) position, the way the
            # library enumerates them (C18): one index for the whole continuous block
            flat_cc = len(lay.CC) >= 2
            flat_dc = len(lay.DC) >= 2
            cc_sizes = [k.shape(S.im.grids[c])[0] for c in lay.CC]
            dc_sizes = [k.shape(S.im.grids[c])[0] for c in lay.DC]
            csizes = [k.shape(S.im.grids[c])[0] for c in lay.RC] + ([k.ravel_size(dc_sizes)] if flat_dc else dc_sizes) + ([k.ravel_size(cc_sizes)] if flat_cc else cc_sizes)

            def alt_of(cidx):
                cidx = list(cidx)
                rc, rest = cidx[: len(lay.RC)], cidx[len(lay.RC) :]
                if flat_dc:
                    dc, rest = list(k.unravel(dc_sizes, rest[0])), rest[1:]
                else:
                    dc, rest = rest[: len(lay.DC)], rest[len(lay.DC) :]
                cc = list(k.unravel(cc_sizes, rest[0])) if flat_cc else rest
                cidx = tuple(rc + dc + cc)
                alt = {**states, **{c: k.at(S.im.grids[c], (j,)) for c, j in zip(choice_vars, cidx)}, "_period": t}
                qa, fa = objective_of(alt)
                return qa, L.And(bmf.filters(alt), True if fa is None else fa)

            # supported inputs: the agent has a feasible grid choice and feasible objectives are finite
            if k.mode == "native":
                if value == float("-inf"):
                    continue
                k.ensures(f"reported-choices-pass-filters-and-constraints[t={t}]", ok)
                k.ensures(f"reported-value-is-the-objective-of-the-reported-choices[t={t}]", k.close(value, q))
            else:
                # "supported" = some grid combination is admissible and feasible, and feasible objectives are
                # finite.  (exists c. P(c)) -> G  is stated in the equivalent form  forall c. (P(c) -> G)  with an
                # arbitrary witness combination, and the argument is cut at "the reported value is finite".
                finite = L.forall(csizes, lambda c: L.Implies(alt_of(c)[1], alt_of(c)[0] > k.ninf))
                for wit in k.indices(csizes, name=f"wit{t}_"):
                    supported = L.And(alt_of(wit)[1], finite)
                    k.lemma(f"a-supported-agent-has-a-finite-value[t={t}]", L.Implies(supported, value > k.ninf))
                    k.ensures(f"reported-choices-pass-filters-and-constraints[t={t}]", L.Implies(supported, ok))
                    k.ensures(f"reported-value-is-the-objective-of-the-reported-choices[t={t}]", L.Implies(supported, k.close(value, q)))
            for cidx in k.indices(csizes, name=f"alt{t}_"):
                qa, oka = alt_of(cidx)
                k.ensures(f"no-feasible-grid-choice-is-better[t={t}]", L.Implies(oka, k.leq(qa, value)))


# ----------------------------------------------------------------------------- C13: additional targets
@contract("lcm.simulate.simulate", cid="C13.targets", family=sim_family, props=("C13",))
def targets_contract(k, inst):
    """(statement of C13) every requested additional target (auxiliary function, utility, constraint,
    deterministic transition function) is a column whose entry in row (t, i) is that model function evaluated at
    the row's states, choices, period and the parameters."""
    skel = inst.skel
    targets = [n for n, _, r in skel.functions if r in ("aux", "utility", "constraint", "next")]
    if bounded_only_if_restricted_choices(k, skel, {"simulation-runs", "one-column-per-target", "target-is-the-model-function-at-the-row"}, deductive_ok=True):
        return
    S = run_simulation(k, inst, targets=targets)
    if isinstance(S, Raised):
        k.fail("simulation-runs", repr(S))
        return
    feasible_choice_exists(k, S)
    n, T = S.n, skel.n_periods
    cols = set(S.frame.columns)
    if k.mode != "native":
        # the targets are evaluated row by row (through the row dispatcher), never on whole columns:
        # only then does a target that is not an elementwise function get the row's own values
        k.ensures("targets-are-evaluated-row-wise", not S.array_applications_in_targets)
    k.ensures("one-column-per-target", set(targets) <= cols)
    if not set(targets) <= cols:
        return
    for t in range(T):
        for (i,) in k.indices([n], name=f"agent{t}_"):
            env = {**_states_at(k, S, t, i), **_choices_at(k, S, t, i), "_period": t}
            for tg in targets:
                got = k.at(S.col(tg), (S.pos(t, i),))
                want = spec_eval(k, S.b, tg, env, S.P)
                if skel.role(tg) == "constraint":
                    k.ensures(f"target-is-the-model-function-at-the-row[{tg}]", L.Iff(got, want))
                else:
                    k.ensures(f"target-is-the-model-function-at-the-row[{tg}]", k.close(got, want))


# ----------------------------------------------------------------------------- C04: keys and routing
def stochastic_family(tier):
    return [i for i in sim_family(tier) if i.skel.stochastic_states() and not i.variant]


@contract("lcm.simulate.simulate", cid="C04.key-discipline", family=stochastic_family, props=("C04",))
def key_discipline_contract(k, inst):
    """(what contracts can decide of C04) every PRNG key is used at most once over all periods, stochastic
    variables and agents: the carry key is split once per period into one key per stochastic variable plus
    the next carry, each variable key is split into one key per agent, each agent key is used for exactly one
    draw; draws are taken from the grid of the state with the agent's own transition row (C03); nothing in
    period 0 depends on the seed.  (frequencies / independence: assumed PRNG contract, not decided)"""
    if k.mode == "native":
        S = run_simulation(k, inst)
        if isinstance(S, Raised):
            k.fail("simulation-runs", repr(S))
            return
        # same seed -> identical frame; another seed -> identical period 0
        import numpy as np

        kw = dict(initial_states=S.init, vf_arr_list=list(S.vf))
        f1 = k.call_fn(S.sim, S.P, seed=int(S.seed), **kw)
        f2 = k.call_fn(S.sim, S.P, seed=int(S.seed) + 17, **kw)
        n = int(S.n)
        k.ensures("same-seed-same-frame", all(np.array_equal(np.asarray(S.frame[c].values, dtype=float), np.asarray(f1[c].values, dtype=float), equal_nan=True) for c in S.frame.columns))
        k.ensures("period-0-does-not-depend-on-the-seed", all(np.array_equal(np.asarray(S.frame[c].values, dtype=float)[:n], np.asarray(f2[c].values, dtype=float)[:n], equal_nan=True) for c in S.frame.columns))
        return
    import z3

    from pyvc.ctx import cur
    from pyvc.stubs.jnp_impl import _forall
    from pyvc.values import T
    from pyvc.vc import _symbols

    S = run_simulation(k, inst, cut="observe")
    if isinstance(S, Raised):
        k.fail("simulation-runs", repr(S))
        return
    ctx = cur()
    # which key goes to which variable must not depend on any set iteration order (C09): the key terms are
    # recorded and compared between runs under different PYTHONHASHSEED values; no particular derivation scheme
    # is demanded (any scheme that never uses a key twice satisfies C04)
    order = ["next_" + x for x in [nm[len("next_"):] for nm, _, r in S.skel.functions if r == "stoch"]]
    for t in range(S.skel.n_periods):
        got = S.keys_by_period.get(t, {})
        k.ensures(f"one-key-per-stochastic-transition[t={t}]", set(got) == set(order))
        for nm in order:
            if nm in got:
                k.fingerprint(f"key-of-transition[{nm},t={t}]", got[nm])
    events = [e for e in ctx.events if e.get("kind") in ("split", "draw")]
    skel, n = S.skel, S.n
    n_st = len(skel.stochastic_states())
    # one (vectorised) draw per stochastic variable and period; how the keys are derived (how many splits or
    # folds) is left open: any scheme in which no key is used twice satisfies the property
    k.ensures("one-draw-per-stochastic-variable-and-period", len([e for e in events if e["kind"] == "draw"]) == skel.n_periods * n_st)

    def renamed(e, tag):
        vs = [v for v, _ in e["binders"]]
        new = [z3.Int(f"{v}{tag}") for v in vs]
        key = z3.substitute(e["key"], *zip(vs, new)) if vs else e["key"]
        rng = [z3.And(nv >= 0, nv < m) for nv, (_, m) in zip(new, e["binders"])]
        return key, new, rng

    for a in range(len(events)):
        for b in range(a, len(events)):
            ka, va, ra = renamed(events[a], "'a")
            kb, vb, rb = renamed(events[b], "'b")
            if a == b:
                if not va:
                    continue
                goal = z3.Implies(z3.And(*ra, *rb, z3.Or(*[x != y for x, y in zip(va, vb)])), ka != kb)
            else:
                goal = z3.Implies(z3.And(*ra, *rb), ka != kb)
            if va or vb:
                goal = z3.ForAll(va + vb, goal) if (va + vb) else goal
            k.ensures(f"no-key-is-used-twice[{a},{b}]", T(goal))
    # period 0 does not depend on the seed: the seed does not occur in the terms of the period-0 rows
    # period 0 does not depend on the seed: replacing the seed by any other seed leaves every period-0 entry equal
    seed2 = z3.Int("another.seed")
    for (i0,) in k.indices([n], name="agent.p0_"):
        for c in S.frame.columns:
            term = S.frame.columns[c].get((i0.e,))
            k.ensures(f"period-0-does-not-depend-on-the-seed[{c}]", T(term == z3.substitute(term, (S.seed.e, seed2))))


# ----------------------------------------------------------------------------- C06: solve and simulate agree
@contract("lcm.simulate.simulate", cid="C06.solve-and-simulate-path", family=sim_family, props=("C06",))
def solve_and_simulate_contract(k, inst):
    """(statement of C06) simulating with a solve function instead of value arrays calls that function exactly
    once, with the params of the call, and then uses the returned list exactly like a list passed in: period t
    reads element t+1 (nothing in the last period); with neither a list nor a solve function it raises
    ValueError; the function returned for 'solve_and_simulate' is the simulate function with the model's solve
    function bound; one utility-and-feasibility function is generated per period and feeds both the solver's and
    the policy's functions."""
    if bounded_only_if_restricted_choices(k, inst.skel, {"simulation-runs", "solve-function-called-once-with-the-params", "same-frame-as-passing-the-solution"}):
        return
    S = run_simulation(k, inst, via_solve_model=True)
    if isinstance(S, Raised):
        k.fail("simulation-runs", repr(S))
        return
    skel, T = S.skel, S.skel.n_periods
    k.ensures("solve-function-called-once-with-the-params", len(S.solve_calls) == 1 and (S.solve_calls[0] is S.P or k.mode == "native"))
    if k.mode == "native":
        import numpy as np

        f2 = k.call_fn(S.sim, S.P, initial_states=S.init, vf_arr_list=list(S.vf), seed=int(S.seed))
        k.ensures("same-frame-as-passing-the-solution", all(np.allclose(np.asarray(S.frame[c].values, dtype=float), np.asarray(f2[c].values, dtype=float), equal_nan=True) for c in S.frame.columns))
        return
    for t in range(T):
        o = S.opaque.get(t)
        ok = o is not None and len(o.helpers_seen) >= 1
        k.ensures(f"one-generated-function-per-period[{t}]", ok)
        if not ok:
            return
        seen = o.helpers_seen[-1]
        if t < T - 1:
            k.ensures(f"period-reads-element-t+1-of-the-returned-list[{t}]", seen.get("vf_arr") is S.vf[t + 1])
        else:
            k.ensures("last-period-reads-no-value-array", seen.get("vf_arr", None) is None)
    none = k.call_fn(S.sim, S.P, initial_states=S.init)
    k.ensures("neither-list-nor-solve-function-is-rejected", isinstance(none, Raised) and isinstance(none.exc, ValueError))
    # the entry point wires solve_and_simulate = simulate with the model's solve function bound
    restore = install_overrides(k, k.world)
    made, restore2 = install_opaque_uf(k, k.world, skel)
    created = []
    try:
        both = k.call_fn(k.fn("lcm.entry_point.get_lcm_function"), model=S.b.model, targets="solve_and_simulate", jit=False)
    finally:
        restore2()
        restore()
    if isinstance(both, Raised):
        k.fail("solve-and-simulate-function-created", repr(both))
        return
    fn, _tmpl = both
    kw = getattr(fn, "keywords", {})  # functools.partial flattens partial(partial(simulate, ...), solve_model=...)
    sm = kw.get("solve_model")
    inner = getattr(fn, "func", None)
    k.ensures("solve-and-simulate-is-simulate-with-solve-bound", sm is not None and getattr(sm, "func", None) is k.fn("lcm.solve_brute.solve") and inner is k.fn("lcm.simulate.simulate"))
    if sm is not None and inner is not None:
        skw, ikw = getattr(sm, "keywords", {}), kw
        k.ensures("solver-and-simulation-share-indexers-and-choice-grids", skw.get("state_indexers") is ikw.get("state_indexers") and skw.get("continuous_choice_grids") is ikw.get("continuous_choice_grids"))
        k.ensures("one-utility-and-feasibility-function-per-period-feeds-both", sorted(made) == list(range(T)) and len(skw.get("compute_ccv_functions", [])) == T and len(ikw.get("compute_ccv_policy_functions", [])) == T)


# ----------------------------------------------------------------------------- C09: purity / frame
@contract("lcm.entry_point.get_lcm_function", cid="C09.frame", family=lambda tier: [SimInst(s) for s in skeletons(tier)], props=("C09",))
def frame_contract(k, inst):
    """(statement of C09) building the solve and simulate functions and calling them -- repeatedly, with
    different params -- never stores into anything that existed before the call: the user's model (its function,
    state and choice mappings and the functions themselves), the params passed in, the initial states, module-level
    state of the library, mutable default arguments, and (for the generated functions) the per-period objects they
    were built from; the user's model and params are unchanged afterwards."""
    skel = inst.skel
    if k.mode == "native":
        return _frame_native(k, inst)
    from pyvc.ctx import cur
    from pyvc.frame import Frame

    restore = install_overrides(k, k.world)
    fr = Frame()
    try:
        b = build(k, skel)
        m = b.model
        before = {"functions": dict(m.functions), "states": dict(m.states), "choices": dict(m.choices)}
        fr.protect(m, "model")
        for f in m.functions.values():
            fr.protected[id(f)] = (f, "user function")
        # module-level containers and mutable defaults of the library
        for mod in list(k.world.modules.values()):
            for nm, v in list(mod._env.vars.items()):
                if isinstance(v, (dict, list, set)):
                    fr.protect(v, f"{mod.name}.{nm}", depth=1)
                from pyvc.exec import Closure

                sig = v._c if isinstance(v, Closure) else None
                if sig is not None:
                    for d in list(sig.defaults) + [x for x in sig.kwdefaults if isinstance(x, (dict, list, set))]:
                        if isinstance(d, (dict, list, set)):
                            fr.protect(d, f"default argument of {mod.name}.{nm}", depth=1)
        cur().memo["frame"] = fr
        glf = k.fn("lcm.entry_point.get_lcm_function")
        got = k.call_fn(glf, model=m, targets="solve", jit=False)
        if isinstance(got, Raised):
            k.fail("functions-created", repr(got))
            return
        solve_model, template = got
        P1 = symbolic_params(k, template, prefix="p1")
        P2 = symbolic_params(k, template, prefix="p2")
        snap = lambda P: {kk: (dict(v) if isinstance(v, dict) else v) for kk, v in P.items()}
        s1, s2 = snap(P1), snap(P2)
        fr.protect(P1, "params")
        fr.protect(P2, "params (second call)")
        fr.protect(template, "template of an earlier get_lcm_function call", depth=2)
        for nm, lst in solve_model.keywords.items():
            fr.protect(lst, f"per-period list {nm}", depth=2)
        o1 = k.call_fn(solve_model, P1)
        o2 = k.call_fn(solve_model, P2)
        o3 = k.call_fn(solve_model, P1)
        k.ensures("repeated-and-interleaved-solve-calls-run", not any(isinstance(o, Raised) for o in (o1, o2, o3)))
        got2 = k.call_fn(glf, model=m, targets="solve", jit=False)
        k.ensures("building-again-gives-a-fresh-template", (not isinstance(got2, Raised)) and got2[1] is not template and set(got2[1]) == set(template))
        unchanged = lambda P, s: set(P) == set(s) and all((P[kk] is s[kk]) if not isinstance(s[kk], dict) else (set(P[kk]) == set(s[kk]) and all(P[kk][j] is s[kk][j] for j in s[kk])) for kk in s)
        k.ensures("params-unchanged", unchanged(P1, s1) and unchanged(P2, s2))
        k.ensures("model-unchanged", dict(m.functions) == before["functions"] and all(m.functions[x] is before["functions"][x] for x in before["functions"]) and dict(m.states) == before["states"] and dict(m.choices) == before["choices"])
    finally:
        fr.active = False
        restore()
    k.ensures("nothing-that-existed-before-a-call-is-stored-into", not fr.violations)
    if fr.violations:
        from pyvc.ctx import cur as _c

        _c().notes.append("frame violations: " + "; ".join(fr.violations[:5]))


def _frame_native(k, inst):
    import copy

    import numpy as np

    skel = inst.skel
    b = build(k, skel)
    m = b.model
    before = {"functions": dict(m.functions), "states": dict(m.states), "choices": dict(m.choices)}
    glf = k.fn("lcm.entry_point.get_lcm_function")
    solve_model, template = glf(model=m, targets="solve", jit=False)
    P1 = k.native.to_native(symbolic_params(k, template, prefix="p1"))
    P2 = k.native.to_native(symbolic_params(k, template, prefix="p2"))
    c1 = copy.deepcopy(jax_to_np(P1))
    a = solve_model(P1)
    solve_model(P2)
    c = solve_model(P1)
    k.ensures("repeated-and-interleaved-calls-give-the-result-of-the-current-arguments", all(np.array_equal(np.asarray(x), np.asarray(y), equal_nan=True) for x, y in zip(a, c)))
    k.ensures("params-unchanged", same_tree(jax_to_np(P1), c1))
    k.ensures("model-unchanged", dict(m.functions) == before["functions"] and dict(m.states) == before["states"] and dict(m.choices) == before["choices"])
    solve2, _ = glf(model=m, targets="solve", jit=False)
    d = solve2(P1)
    k.ensures("building-the-function-again-gives-the-same-results", all(np.array_equal(np.asarray(x), np.asarray(y), equal_nan=True) for x, y in zip(a, d)))


def jax_to_np(t):
    import numpy as np

    if isinstance(t, dict):
        return {kk: jax_to_np(v) for kk, v in t.items()}
    return np.asarray(t)


def same_tree(a, b):
    import numpy as np

    if isinstance(a, dict):
        return isinstance(b, dict) and set(a) == set(b) and all(same_tree(a[x], b[x]) for x in a)
    return np.array_equal(a, b, equal_nan=True)


# ----------------------------------------------------------------------------- C08: independence of agents (bounded part)
@contract("lcm.simulate.simulate", cid="C08.permutation-subset-duplication", family=lambda tier: [SimInst(s) for s in skeletons("quick") if not s.stochastic_states()], props=("C08",))
def agents_independent_bounded_contract(k, inst):
    """[bounded stand-in] in a model without stochastic transitions: permuting the agents permutes the rows,
    simulating a subset gives the same paths, duplicating an agent duplicates its path, the key order of
    initial_states is irrelevant.  (The deductive part of C08 is that every clause of C02.decisions,
    C03.law-of-motion and C13.panel about row (t, i) mentions agent i's own row only, for all batches.)"""
    names = {"permuting-agents-permutes-rows", "subset-gives-the-same-paths", "duplicating-an-agent-duplicates-its-path", "key-order-of-initial-states-is-irrelevant"}
    if k.mode != "native":
        from pyvc.ctx import cur

        cur().memo.setdefault("bounded_clauses", set()).update(names)
        return
    import numpy as np

    S = run_simulation(k, inst)
    if isinstance(S, Raised):
        k.fail("simulation-runs", repr(S))
        return
    n = int(S.n)
    T = S.skel.n_periods
    kw = dict(vf_arr_list=list(S.vf), seed=int(S.seed))
    cols = [c for c in S.frame.columns]
    base = {c: np.asarray(S.frame[c].values, dtype=float).reshape(T, n) for c in cols}

    def run(init):
        f = k.call_fn(S.sim, S.P, initial_states=init, **kw)
        m = len(next(iter(init.values())))
        return {c: np.asarray(f[c].values, dtype=float).reshape(T, m) for c in cols}

    perm = list(reversed(range(n)))
    init_np = {s: np.asarray(v) for s, v in S.init.items()}
    rp = run({s: v[perm] for s, v in init_np.items()})
    k.ensures("permuting-agents-permutes-rows", all(np.allclose(rp[c], base[c][:, perm], equal_nan=True) for c in cols))
    sub = [0]
    rs = run({s: v[sub] for s, v in init_np.items()})
    k.ensures("subset-gives-the-same-paths", all(np.allclose(rs[c], base[c][:, sub], equal_nan=True) for c in cols))
    dup = list(range(n)) + [0]
    rd = run({s: v[dup] for s, v in init_np.items()})
    k.ensures("duplicating-an-agent-duplicates-its-path", all(np.allclose(rd[c], base[c][:, dup], equal_nan=True) for c in cols))
    rk = run(dict(reversed(list(init_np.items()))))
    k.ensures("key-order-of-initial-states-is-irrelevant", all(np.allclose(rk[c], base[c], equal_nan=True) for c in cols))


# ----------------------------------------------------------------------------- create_choice_segments
@contract("lcm.simulate.create_choice_segments", family=lambda tier: [type("CInst", (), {"C": c, "label": f"combinations={c}"})() for c in ((1, 2, 3) if tier == "quick" else (1, 2, 3, 4, 6))], props=("C08", "C02"))
def choice_segments_contract(k, inst):
    """rows of the data state-choice space are the kept (agent, combination) pairs in row-major order: the
    segment id of the k-th kept pair is its agent; if every agent keeps at least one pair the number of
    segments is the number of agents (library lemma on `unique`: a sequence that takes every value of [0, n)
    and no other has n distinct values; premises discharged here), and the ids are sorted."""
    C = inst.C
    n = k.int("n_agents", ge=1, le=3, size=True)
    import itertools

    mask = k.array("mask", [n * C], "bool", gen=lambda rng, shp: [x for _ in range(shp[0] // C) for x in _one_true_row(rng, C)])
    every_agent_keeps_one = L.forall([n], lambda i: L.Or(*[k.at(mask, (i[0] * C + c,)) for c in range(C)]))
    k.requires(every_agent_keeps_one)
    out = k.call(mask, n)
    if isinstance(out, Raised):
        k.fail("no-exception", repr(out))
        return
    ids, num = out["segment_ids"], out["num_segments"]
    if k.mode == "native":
        import numpy as np

        m = np.asarray(mask)
        want = [p // C for p in range(len(m)) if m[p]]
        k.ensures("segment-id-of-a-kept-pair-is-its-agent", [int(x) for x in np.asarray(ids)] == want)
        k.ensures("one-segment-per-agent", int(num) == int(n))
        return
    import z3

    from pyvc.ctx import cur
    from pyvc.indexing import mask_selector
    from pyvc.values import T

    ctx = cur()
    ms = mask_selector(mask)
    K = T(ms.K)
    k.ensures("one-id-per-kept-pair", L.And(len(k.shape(ids)) == 1, L.eq(k.shape(ids)[0], K)))
    for (row,) in k.indices([K], name="row"):
        p = ms.sel(row)[0]
        k.ensures("segment-id-of-a-kept-pair-is-its-agent", T(ids.get((row.e,)) == p / C))
    for (r1, r2) in k.indices([K, K], name="ord"):
        k.ensures("ids-are-sorted", L.Implies(r1 <= r2, k.at(ids, (r1,)) <= k.at(ids, (r2,))))
    # library lemma on unique (premises proved, conclusion assumed)
    uniques = ctx.memo.get("uniques", [])
    k.ensures("counts-distinct-segment-ids-once", len(uniques) == 1)
    if len(uniques) != 1:
        return
    U, x = uniques[0]
    k.ensures("lemma-premise:ids-in-range", L.forall([K], lambda j: L.And(T(x.get((j[0].e,))) >= 0, T(x.get((j[0].e,))) < n)))
    k.ensures("lemma-premise:every-agent-occurs", L.forall([n], lambda i: L.exists([K], lambda j: L.eq(T(x.get((j[0].e,))), i[0]))))
    ctx.assume(U == n.e, tag="math:card-of-range-of-a-surjection-onto-[0,n)")
    ctx.trusted.add("library lemma (assumed, premises discharged): a sequence taking exactly the values 0..n-1 has n distinct values")
    k.ensures("one-segment-per-agent", L.eq(num, n))


def _one_true_row(rng, C):
    row = [rng.random() < 0.5 for _ in range(C)]
    row[rng.randrange(C)] = True
    return row
