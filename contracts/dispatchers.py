"""Contracts for lcm.dispatchers (C19; carried into C01, C02, C05, C08, C17).

(*) clauses are from the statement of C19: entry (i1..ik) of the mapped function is the function at
the i1-th .. ik-th elements of the named arguments, all other arguments passed through, axes in the
order the names were listed; joint mapping pairs elements; the space map puts the joint axis first
or last as requested."""

from __future__ import annotations

import inspect
import itertools

from pyvc import logic as L
from pyvc.contract import Raised, contract

from .families import capped, ordered_subsets, sig_label, signatures


def _is_value_error(out):
    return isinstance(out, Raised) and isinstance(out.exc, ValueError)


class MapInst:
    def __init__(self, params, axes, outputs=1, out_keys=None, extra=None):
        self.vector = outputs == "vector"
        if self.vector:
            outputs = 2
        self.params, self.axes, self.outputs, self.out_keys = params, axes, outputs, out_keys
        self.names = [n for n, _ in params]
        self.extra = extra or {}
        self.label = f"sig={sig_label(params)},mapped={axes},out={'dict' if out_keys else ('vector' if self.vector else outputs)}" + "".join(f",{a}={b}" for a, b in self.extra.items())


def _outs(tier, i):
    # scalar outputs everywhere; a tuple and a dict output on a rotating subset
    if i % 7 == 1:
        return "vector", None  # one array-valued output leaf: mapped axes come before the function's own
    if i % 7 == 3:
        return 2, None
    if i % 7 == 5:
        return 1, ["u", "f"]
    return 1, None


def productmap_family(kinds, max_quick, max_thorough, cap_thorough=1500):
    def fam(tier):
        out = []
        for params in signatures(max_quick if tier == "quick" else max_thorough, kinds):
            names = [n for n, _ in params]
            for axes in ordered_subsets(names):
                o, keys = _outs(tier, len(out))
                out.append(MapInst(params, axes, o, keys))
        return capped(out, 120 if tier == "quick" else cap_thorough)[0]

    return fam


def _inputs(k, inst, mapped_lengths):
    """arrays for mapped names (length per name), scalars otherwise"""
    args = {}
    for n in inst.names:
        if n in mapped_lengths:
            args[n] = k.array(f"x_{n}", [mapped_lengths[n]], "float", values=[0.0, 1.0, 2.0, 3.0])
        else:
            args[n] = k.real(f"s_{n}")
    return args


def _check_entries(k, inst, f, out, args, shape, index_of):
    """out[idx] (leafwise) == f at the elements selected by idx"""
    if inst.vector:
        shp = k.shape(out)
        k.ensures("shape[vector]", len(shp) == len(shape) + 1 and L.And(*[L.eq(a, b) for a, b in zip(shp, list(shape) + [2])]))
        if len(shp) != len(shape) + 1:
            return
        for idx in k.indices(shape, name="iv_"):
            by_name = {}
            for n in inst.names:
                q = index_of(n)
                by_name[n] = k.at(args[n], (idx[q],)) if q is not None else args[n]
            for o in range(2):
                k.ensures(f"entry-is-function-at-elements[vector,{o}]", L.eq(k.at(out, (*idx, o)), f.spec(by_name, o)))
        return
    leaves = [(None, out)] if not isinstance(out, (tuple, dict)) else (list(enumerate(out)) if isinstance(out, tuple) else [(i, out[key]) for i, key in enumerate(inst.out_keys)])
    if isinstance(out, tuple):
        k.ensures("pytree-structure", len(out) == inst.outputs)
    if isinstance(out, dict):
        k.ensures("pytree-structure", set(out) == set(inst.out_keys))
    for o, leaf in leaves:
        o = o or 0
        shp = k.shape(leaf)
        k.ensures(f"shape[{o}]", len(shp) == len(shape) and L.And(*[L.eq(a, b) for a, b in zip(shp, shape)]))
        if len(shp) != len(shape):
            continue
        for idx in k.indices(shape, name=f"i{o}_"):
            by_name = {}
            for n in inst.names:
                q = index_of(n)
                by_name[n] = k.at(args[n], (idx[q],)) if q is not None else args[n]
            k.ensures(f"entry-is-function-at-elements[{o}]", L.eq(k.at(leaf, idx), f.spec(by_name, o)))


@contract("lcm.dispatchers._base_productmap", family=productmap_family(("po", "pk"), 3, 4), props=("C19", "C10"))
def base_productmap_contract(k, inst):
    """(*) h = _base_productmap(f, axes): h(*a)[i1..ik] = f(*a') with a'[axes[q]] = a[axes[q]][iq] and all
    other arguments passed through; output axes in the order of `axes` with the lengths of those
    arguments; no axes -> f itself."""
    axes = inst.axes
    f = k.absfunc("F", inst.params, inst.outputs, inst.out_keys, vector=inst.vector)
    lens = {n: k.int(f"n_{n}", ge=0, size=True) for n in axes}
    args = _inputs(k, inst, lens)
    h = k.call(f, list(axes))
    if isinstance(h, Raised):
        k.fail("mapped-function-created", repr(h))
        return
    out = k.call_fn(h, *[args[n] for n in inst.names])
    if isinstance(out, Raised):
        k.fail("call-succeeds", repr(out))
        return
    _check_entries(k, inst, f, out, args, [lens[n] for n in axes], lambda n: axes.index(n) if n in axes else None)


@contract("lcm.dispatchers.productmap", family=productmap_family(("po", "pk", "ko"), 3, 4), props=("C19", "C01", "C02", "C17"))
def productmap_contract(k, inst):
    """(*) h = productmap(f, variables) is keyword-only with f's names; h(**kw)[i1..ik] = f with
    kw[variables[q]][iq] and everything else passed through, in any keyword order; duplicates in
    `variables` raise ValueError."""
    axes = inst.axes
    f = k.absfunc("F", inst.params, inst.outputs, inst.out_keys, vector=inst.vector)
    lens = {n: k.int(f"n_{n}", ge=0, size=True) for n in axes}
    args = _inputs(k, inst, lens)
    h = k.call(f, list(axes))
    if isinstance(h, Raised):
        k.fail("mapped-function-created", repr(h))
        return
    sig = inspect.signature(h)
    k.ensures("signature", list(sig.parameters) == inst.names and all(p.kind == p.KEYWORD_ONLY for p in sig.parameters.values()))
    order = list(reversed(inst.names))
    out = k.call_fn(h, **{n: args[n] for n in order})
    if isinstance(out, Raised):
        k.fail("call-succeeds", repr(out))
        return
    _check_entries(k, inst, f, out, args, [lens[n] for n in axes], lambda n: axes.index(n) if n in axes else None)
    if axes:
        dup = k.call(f, list(axes) + [axes[0]])
        k.ensures("duplicates-rejected", _is_value_error(dup))


def vmap1d_family(tier):
    out = []
    for params in signatures(3 if tier == "quick" else 4, ("po", "pk", "ko"), min_n=1):
        names = [n for n, _ in params]
        for axes in ordered_subsets(names, min_k=1):
            for cw in ("only_kwargs", "only_args"):
                if cw == "only_args" and any(kd == "ko" for _, kd in params):
                    continue  # jax.vmap cannot pass keyword-only parameters positionally
                o, keys = _outs(tier, len(out))
                out.append(MapInst(params, axes, o, keys, extra={"callable_with": cw}))
    return capped(out, 120 if tier == "quick" else 1200)[0]


@contract("lcm.dispatchers.vmap_1d", family=vmap1d_family, props=("C19", "C08", "C13"))
def vmap_1d_contract(k, inst):
    """(*) g = vmap_1d(f, variables): the listed arguments are mapped jointly (equal lengths): g(..)[i] = f
    with every listed argument at its i-th element and the others passed through; signature preserved;
    'only_kwargs' gives a keyword-only function; duplicates and an invalid option raise ValueError."""
    axes = inst.axes
    cw = inst.extra["callable_with"]
    f = k.absfunc("F", inst.params, inst.outputs, inst.out_keys, vector=inst.vector)
    n = k.int("n", ge=0, size=True)
    args = _inputs(k, inst, {a: n for a in axes})
    g = k.call(f, variables=list(axes), callable_with=cw)
    if isinstance(g, Raised):
        k.fail("mapped-function-created", repr(g))
        return
    sig = inspect.signature(g)
    k.ensures("signature-names", list(sig.parameters) == inst.names)
    if cw == "only_kwargs":
        out = k.call_fn(g, **{x: args[x] for x in reversed(inst.names)})
    else:
        out = k.call_fn(g, *[args[x] for x in inst.names])
    if isinstance(out, Raised):
        k.fail("call-succeeds", repr(out))
        return
    _check_entries(k, inst, f, out, args, [n], lambda x: 0 if x in axes else None)
    dup = k.call(f, variables=list(axes) + [axes[0]], callable_with=cw)
    k.ensures("duplicates-rejected", _is_value_error(dup))
    bad = k.call(f, variables=list(axes), callable_with="both")
    k.ensures("invalid-option-rejected", _is_value_error(bad))


def spacemap_family(tier):
    out = []
    for params in signatures(3 if tier == "quick" else 4, ("po", "pk", "ko"), min_n=0):
        names = [n for n, _ in params]
        for dense in ordered_subsets(names):
            rest = [x for x in names if x not in dense]
            for sparse in ordered_subsets(rest):
                for pdf in (False, True):
                    if not sparse and pdf:
                        continue
                    o, keys = _outs(tier, len(out))
                    out.append(MapInst(params, list(dense), o, keys, extra={"sparse": list(sparse), "put_dense_first": pdf}))
    return capped(out, 150 if tier == "quick" else 2000)[0]


@contract("lcm.dispatchers.spacemap", family=spacemap_family, props=("C19", "C05", "C01", "C02", "C08"))
def spacemap_contract(k, inst):
    """(*) h = spacemap(f, dense, sparse, put_dense_first): keyword-only with f's names;
    no sparse names: h(**kw)[d1..dm] = f(kw with dense_q -> kw[dense_q][d_q]);
    sparse, not dense-first: h(**kw)[j][d1..dm] = f(.. sparse s -> kw[s][j]) (the joint axis FIRST);
    dense-first: h(**kw)[d1..dm][j] (the joint axis LAST); overlap or duplicates raise ValueError."""
    dense, sparse, pdf = inst.axes, inst.extra["sparse"], inst.extra["put_dense_first"]
    f = k.absfunc("F", inst.params, inst.outputs, inst.out_keys, vector=inst.vector)
    lens = {x: k.int(f"n_{x}", ge=0, size=True) for x in dense}
    ns = k.int("n_sparse", ge=0, size=True) if sparse else None
    for s in sparse:
        lens[s] = ns
    args = _inputs(k, inst, lens)
    h = k.call(f, list(dense), list(sparse), put_dense_first=pdf)
    if isinstance(h, Raised):
        k.fail("mapped-function-created", repr(h))
        return
    sig = inspect.signature(h)
    k.ensures("signature", list(sig.parameters) == inst.names and all(p.kind == p.KEYWORD_ONLY for p in sig.parameters.values()))
    out = k.call_fn(h, **{x: args[x] for x in reversed(inst.names)})
    if isinstance(out, Raised):
        k.fail("call-succeeds", repr(out))
        return
    dshape = [lens[x] for x in dense]
    if not sparse:
        shape, pos = dshape, (lambda x: dense.index(x) if x in dense else None)
    elif pdf:
        shape = dshape + [ns]
        pos = lambda x: dense.index(x) if x in dense else (len(dense) if x in sparse else None)
    else:
        shape = [ns] + dshape
        pos = lambda x: 1 + dense.index(x) if x in dense else (0 if x in sparse else None)
    _check_entries(k, inst, f, out, args, shape, pos)
    if dense:
        ov = k.call(f, list(dense), list(sparse) + [dense[0]], put_dense_first=pdf)
        k.ensures("overlap-rejected", _is_value_error(ov))
        dp = k.call(f, list(dense) + [dense[0]], list(sparse), put_dense_first=pdf)
        k.ensures("duplicates-rejected", _is_value_error(dp))
