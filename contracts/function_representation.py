"""Contracts for lcm.function_representation (C14; used by C01/C02 through the period functions)."""

from __future__ import annotations

import dataclasses
import itertools

from pyvc import logic as L
from pyvc.contract import Raised, contract

from .bellman import coordinate, install_overrides, mli


class FRInst:
    def __init__(self, n_rs, n_ds, cs_kinds, prefix, info_reversed=False):
        self.n_rs, self.n_ds, self.cs_kinds, self.prefix = n_rs, n_ds, cs_kinds, prefix
        self.info_reversed = info_reversed  # grid mappings listed in the opposite order of the array axes
        self.label = f"restricted_states={n_rs},discrete_states={n_ds},continuous={list(cs_kinds)},prefix={prefix!r}" + (",mappings-reversed" if info_reversed else "")


def fr_family(tier):
    out = []
    kinds_by_c = {0: [()], 1: [("lin",), ("log",)], 2: [("lin", "log"), ("log", "lin"), ("lin", "lin")], 3: [("lin", "log", "lin")]}
    max_c = 2 if tier == "quick" else 3
    for a, bq, c in itertools.product(range(3), range(3), range(max_c + 1)):
        if tier == "quick" and a + bq + c > 4:
            continue
        for kinds in kinds_by_c[c]:
            if tier == "quick" and kinds in (("log", "lin"), ("lin", "lin")):
                continue
            for prefix in ("next_", ""):
                if tier == "quick" and prefix == "" and (a, bq) != (1, 1):
                    continue
                out.append(FRInst(a, bq, kinds, prefix))
                if len(kinds) >= 2 and prefix == "next_" and (tier != "quick" or (a, bq) == (1, 1)):
                    out.append(FRInst(a, bq, kinds, prefix, info_reversed=True))
    return out


def _build_space_info(k, inst):
    DiscreteGrid = k.fn("lcm.grids.DiscreteGrid")
    Lin, Log = k.fn("lcm.grids.LinspaceGrid"), k.fn("lcm.grids.LogspaceGrid")
    SpaceInfo, IndexerInfo = k.fn("lcm.interfaces.SpaceInfo"), k.fn("lcm.interfaces.IndexerInfo")
    RS = [f"r{q}" for q in range(inst.n_rs)]
    DS = [f"d{q}" for q in range(inst.n_ds)]
    CS = [f"x{q}" for q in range(len(inst.cs_kinds))]
    sizes = {}
    lookup = {}
    for q, v in enumerate(RS + DS):
        n = 2 + (q % 2)
        cat = dataclasses.make_dataclass("Cat_" + v, [(f"l{i}", int, i) for i in range(n)])
        lookup[v] = DiscreteGrid(cat)
        sizes[v] = n
    interp, gsyms = {}, {}
    for v, kind in zip(CS, inst.cs_kinds):
        start, stop = k.real(f"{v}.start"), k.real(f"{v}.stop")
        n = k.int(f"{v}.n", ge=2, le=4, size=True)
        if k.mode == "native":
            lo = abs(start) + (0.5 if kind == "log" else 0.0)
            start, stop = (lo, lo + abs(stop) + 1.0) if kind == "log" else (min(start, stop) - 0.5, max(start, stop) + 0.5)
        else:
            k.requires(start < stop)
            if kind == "log":
                k.requires(start > 0)
        interp[v] = (Lin if kind == "lin" else Log)(start=start, stop=stop, n_points=n)
        gsyms[v] = (kind, start, stop, n)
        sizes[v] = n
    axis_names = (["state_index"] if RS else []) + DS + CS
    if inst.info_reversed:
        lookup = dict(reversed(list(lookup.items())))
        interp = dict(reversed(list(interp.items())))
    info = SpaceInfo(
        axis_names=axis_names,
        lookup_info=lookup,
        interpolation_info=interp,
        indexer_infos=[IndexerInfo(axis_names=RS, name="state_indexer", out_name="state_index")] if RS else [],
    )
    return info, RS, DS, CS, sizes, gsyms


@contract("lcm.function_representation.get_function_representation", family=fr_family, props=("C14", "C01"))
def function_representation_contract(k, inst):
    """(statement of C14) for any discrete labels and continuous values the generated function returns the
    stored array read exactly at the labels (through the indexer for restricted states) and multilinearly
    interpolated over the continuous axes at the grid coordinates of the values; it reproduces stored values
    at grid nodes.  (interpolation kernel and coordinate functions: their contracts, C15)"""
    restore = install_overrides(k, k.world) if k.mode != "native" else (lambda: None)
    try:
        info, RS, DS, CS, sizes, gsyms = _build_space_info(k, inst)
        F = k.call(info, "vf_arr", input_prefix=inst.prefix)
        if isinstance(F, Raised):
            k.fail("function-created", repr(F))
            return
        import inspect

        want_args = {inst.prefix + v for v in RS + DS + CS} | {"vf_arr"} | ({"state_indexer"} if RS else set())
        k.ensures("arguments", set(inspect.signature(F).parameters) == want_args)
        n_feas = k.int("n_feasible", ge=1, le=3, size=True) if RS else None
        vshape = ([n_feas] if RS else []) + [sizes[v] for v in DS + CS]
        V = k.array("vf_arr", vshape, "float", values=[0.0, 1.0, 2.0, -1.0, 0.5, 3.0])
        IND = k.array("state_indexer", [sizes[v] for v in RS], "int", gen=lambda rng, shp: [rng.randrange(int(n_feas)) for _ in range(_prod(shp))]) if RS else None
        if RS and k.mode != "native":
            k.requires(L.forall([sizes[v] for v in RS], lambda ix: L.And(k.at(IND, ix) >= 0, k.at(IND, ix) < n_feas)))
        labels = {v: k.int(f"label.{v}", ge=0, le=sizes[v] - 1) for v in RS + DS}
        values = {v: k.real(f"value.{v}") for v in CS}
        if k.mode == "native":
            for v in CS:
                kind, start, stop, n = gsyms[v]
                values[v] = start + (stop - start) * (abs(values[v]) % 1.0) if kind == "log" else values[v]
        kwargs = {inst.prefix + v: labels[v] for v in RS + DS}
        kwargs.update({inst.prefix + v: values[v] for v in CS})
        kwargs["vf_arr"] = V
        if RS:
            kwargs["state_indexer"] = IND
        out = k.call_fn(F, **kwargs)
    finally:
        restore()
    if isinstance(out, Raised):
        k.fail("call-succeeds", repr(out))
        return
    head = ([k.at(IND, tuple(labels[v] for v in RS))] if RS else []) + [labels[v] for v in DS]
    coords = [coordinate(k, gsyms[v][0], values[v], gsyms[v][1], gsyms[v][2], gsyms[v][3]) for v in CS]
    want = mli(k, lambda ix: k.at(V, (*head, *ix)), [sizes[v] for v in CS], coords)
    k.ensures("exact-lookup-then-multilinear-interpolation", k.close(out, want))
    if CS and k.mode != "native" and len(CS) <= 2:
        # composition with the contracts of C15 (coordinate of grid point i is i; the kernel returns the
        # stored entry at integer coordinates): at grid nodes the representation returns the stored value
        nodes = [k.int(f"node.{v}", ge=0) for v in CS]
        at_nodes = L.And(*[L.And(nodes[q] <= sizes[v] - 1, L.eq(coords[q], nodes[q])) for q, v in enumerate(CS)])
        for case in itertools.product((False, True), repeat=len(CS)):
            hyp = L.And(at_nodes, *[(L.eq(nodes[q], sizes[v] - 1) if case[q] else nodes[q] < sizes[v] - 1) for q, v in enumerate(CS)])
            k.ensures("reproduces-stored-values-at-nodes:" + "".join("L" if x else "i" for x in case), L.Implies(hyp, L.eq(out, k.at(V, (*head, *nodes)))))


def _prod(shp):
    n = 1
    for d in shp:
        n *= int(d)
    return n


class AxesInst:
    def __init__(self, axis_names, cont):
        self.axis_names, self.cont = axis_names, cont
        self.label = f"axis_names={axis_names},continuous={cont}"


def axes_family(tier):
    out = []
    names = ["a", "b", "c"]
    for n in range(1, 4):
        for perm in itertools.permutations(names[:n]):
            for r in range(0, n + 1):
                for cont in itertools.combinations(names[:n], r):
                    out.append(AxesInst(list(perm), list(cont)))
    return out[:: (3 if tier == "quick" else 1)]


@contract("lcm.function_representation._fail_if_interpolation_axes_are_not_last", family=axes_family, props=("C14",))
def interpolation_axes_last_contract(k, inst):
    """raises ValueError iff the continuous axes are not exactly the trailing entries of axis_names"""
    SpaceInfo = k.fn("lcm.interfaces.SpaceInfo")
    info = SpaceInfo(axis_names=list(inst.axis_names), lookup_info={}, interpolation_info={c: None for c in inst.cont}, indexer_infos=[])
    out = k.call(info)
    n = len(inst.cont)
    trailing = n == 0 or set(inst.axis_names[-n:]) == set(inst.cont)
    k.ensures("raises-iff-not-trailing", (isinstance(out, Raised) and isinstance(out.exc, ValueError)) == (not trailing))
