"""Ghost lemmas over the Bellman operator of the statements (C11, C06, C10): proved once, for arbitrary
(uninterpreted) choice sets, utilities and continuation values; the code-facing side -- that `solve`
computes this operator -- is C01's contracts (solve loop, period step, utility-and-feasibility function)."""

from __future__ import annotations

import z3

from pyvc.contract import contract
from pyvc.ctx import cur


def _max_spec(name, X, feasible, value, x):
    """V = max{value(x) : feasible(x)} for a non-empty feasible set: upper bound and attainment"""
    V = z3.Real(name)
    w = z3.Const(name + ".argmax", X)
    c = cur()
    c.assume(z3.ForAll([x], z3.Implies(feasible(x), value(x) <= V)), tag="spec")
    c.assume(z3.And(feasible(w), value(w) == V), tag="spec")
    return V, w


@contract("spec.bellman.affine-utility", cid="C11.affine-utility-step", props=("C11",), scope="forall")
def affine_step_lemma(k):
    """one backward step of the affine law: if utility is replaced by a*u + b (a > 0) and the next-period
    continuation by a*cont + b*G' (what a linear expectation with weights summing to one gives for
    V' = a*V + b*G'), the value becomes a*V + b*(1 + beta*G'); with G(T-1) = 1, G(t) = 1 + beta*G(t+1)
    this is the induction step of 'a times the old value plus b times the sum of beta^k'."""
    if k.mode == "native":
        k.ensures("lemma-is-symbolic-only", True)
        return
    X = z3.DeclareSort("Choice")
    x = z3.Const("x", X)
    feas = z3.Function("feasible", X, z3.BoolSort())
    u = z3.Function("u", X, z3.RealSort())
    cont = z3.Function("cont", X, z3.RealSort())
    a, b, beta, G = z3.Reals("a b beta Gnext")
    cur().assume(a > 0, tag="requires")
    V, _ = _max_spec("V", X, lambda y: feas(y), lambda y: u(y) + beta * cont(y), x)
    Vp, _ = _max_spec("Vprime", X, lambda y: feas(y), lambda y: (a * u(y) + b) + beta * (a * cont(y) + b * G), x)
    from pyvc.values import T

    k.ensures("step: V' = a V + b (1 + beta G')", T(Vp == a * V + b * (1 + beta * G)))
    # last period: no continuation
    V0, _ = _max_spec("Vlast", X, lambda y: feas(y), lambda y: u(y), x)
    V0p, _ = _max_spec("Vlastprime", X, lambda y: feas(y), lambda y: a * u(y) + b, x)
    k.ensures("base: V' = a V + b", T(V0p == a * V0 + b))


@contract("spec.bellman.expectation-is-linear", cid="C11.linear-expectation", props=("C11",), scope="forall")
def expectation_lemma(k):
    """a weighted sum with weights summing to one maps a*v + c to a*E[v] + c (2 and 3 nodes, and the
    product of two independent transitions 2 x 2): the reason why V' = a V + b G gives cont' = a cont + b G"""
    if k.mode == "native":
        k.ensures("lemma-is-symbolic-only", True)
        return
    from pyvc.values import T

    a, c = z3.Reals("a c")
    for n in (2, 3):
        w = [z3.Real(f"w{n}_{i}") for i in range(n)]
        v = [z3.Real(f"v{n}_{i}") for i in range(n)]
        hyp = sum(w) == 1
        k.ensures(f"{n}-nodes", T(z3.Implies(hyp, sum(wi * (a * vi + c) for wi, vi in zip(w, v)) == a * sum(wi * vi for wi, vi in zip(w, v)) + c)))
    w1 = [z3.Real(f"p{i}") for i in range(2)]
    w2 = [z3.Real(f"q{i}") for i in range(2)]
    v = [[z3.Real(f"v{i}{j}") for j in range(2)] for i in range(2)]
    hyp = z3.And(sum(w1) == 1, sum(w2) == 1)
    lhs = sum(w1[i] * w2[j] * (a * v[i][j] + c) for i in range(2) for j in range(2))
    rhs = a * sum(w1[i] * w2[j] * v[i][j] for i in range(2) for j in range(2)) + c
    k.ensures("2x2-nodes", T(z3.Implies(hyp, lhs == rhs)))
    # degenerate rows: a weight vector that puts mass one on label j reproduces the value at j
    k.ensures("degenerate-row-is-deterministic-transition", T(z3.Implies(z3.And(w1[0] == 0, w1[1] == 1), w1[0] * v[0][0] + w1[1] * v[1][0] == v[1][0])))


@contract("spec.bellman.beta-zero", cid="C11.beta-zero", props=("C11",), scope="forall")
def beta_zero_lemma(k):
    """with beta = 0 the value of a period is the maximum of the period's utility over the feasible set,
    whatever the continuation values are"""
    if k.mode == "native":
        k.ensures("lemma-is-symbolic-only", True)
        return
    from pyvc.values import T

    X = z3.DeclareSort("Choice")
    x = z3.Const("x", X)
    feas = z3.Function("feasible", X, z3.BoolSort())
    u = z3.Function("u", X, z3.RealSort())
    cont = z3.Function("cont", X, z3.RealSort())
    beta = z3.Real("beta")
    cur().assume(beta == 0, tag="requires")
    V, _ = _max_spec("V", X, lambda y: feas(y), lambda y: u(y) + beta * cont(y), x)
    V1, _ = _max_spec("Voneperiod", X, lambda y: feas(y), lambda y: u(y), x)
    k.ensures("one-period-problem", T(V == V1))


@contract("spec.bellman.horizon", cid="C11.horizon-independence", props=("C11",), scope="forall")
def horizon_lemma(k):
    """if the period operator B does not depend on the period, the values k periods before the end are the
    same for every horizon: W(k) with W(0) = B(none), W(k+1) = B(W(k)) describes V_{T-1-k} for every T
    (induction on k; the solve loop contract gives V_{T-1} = B_{T-1}(none), V_t = B_t(V_{t+1}))."""
    if k.mode == "native":
        k.ensures("lemma-is-symbolic-only", True)
        return
    from pyvc.values import T

    Obj = z3.DeclareSort("Val")
    B = z3.Function("B", Obj, Obj)
    none = z3.Const("none", Obj)
    T1, T2 = z3.Ints("T1 T2")
    V1 = z3.Function("V.T1", z3.IntSort(), Obj)
    V2 = z3.Function("V.T2", z3.IntSort(), Obj)
    t = z3.Int("t")
    c = cur()
    for (V, TT) in ((V1, T1), (V2, T2)):
        c.assume(TT >= 1, tag="requires")
        c.assume(V(TT - 1) == B(none), tag="spec")
        c.assume(z3.ForAll([t], z3.Implies(z3.And(t >= 0, t < TT - 1), V(t) == B(V(t + 1))), patterns=[V(t)]), tag="spec")
    kk = z3.Int("k")
    k.ensures("base", T(V1(T1 - 1) == V2(T2 - 1)))
    hyp = z3.And(kk >= 0, kk + 1 <= T1 - 1, kk + 1 <= T2 - 1, V1(T1 - 1 - kk) == V2(T2 - 1 - kk))
    k.ensures("step", T(z3.Implies(hyp, V1(T1 - 1 - (kk + 1)) == V2(T2 - 1 - (kk + 1)))))
