"""Contracts for lcm.grids (C16; C12 uses the validators).  Top-level clauses from the statement of C16:
constructing a grid either raises GridInitializationError or yields an object whose array form has
exactly n_points finite, strictly increasing values, first = start, last = stop (n >= 2), equally spaced
on the linear / logarithmic scale; a discrete grid is accepted exactly when the category class is a
dataclass whose field values in declaration order are numerically 0, 1, 2, ..."""

from __future__ import annotations

import dataclasses
import itertools

from pyvc import logic as L
from pyvc import mathlemmas as M
from pyvc.contract import Raised, contract

NUMERIC = ("int", "float", "bool")
SPECIAL = {"+inf": float("inf"), "-inf": float("-inf"), "nan": float("nan")}


class GridInst:
    def __init__(self, cls, ks, ke, kn):
        self.cls, self.ks, self.ke, self.kn = cls, ks, ke, kn
        self.label = f"{cls}(start:{ks},stop:{ke},n_points:{kn})"


def cont_family_of(cls):
    return lambda tier: [i for i in cont_family(tier) if i.cls == cls]


def cont_family(tier):
    if tier == "quick":
        bound_kinds = ("int", "float", "+inf", "-inf", "nan", "str")
        n_kinds = ("int", "str")
    else:
        bound_kinds = ("int", "float", "bool", "+inf", "-inf", "nan", "str")
        n_kinds = ("int", "bool", "float", "str")
    out = []
    for cls in ("LinspaceGrid", "LogspaceGrid"):
        for ks, ke in itertools.product(bound_kinds, repeat=2):
            for kn in n_kinds:
                if tier == "quick" and kn == "str" and (ks, ke) != ("int", "float"):
                    continue
                out.append(GridInst(cls, ks, ke, kn))
    return out


def _value(k, name, kind):
    if kind == "int":
        return k.int(name, ge=-3, le=4) if k.mode == "native" else k.int(name)
    if kind == "float":
        return k.real(name)
    if kind == "bool":
        return k.bool(name)
    if kind in SPECIAL:
        return SPECIAL[kind]
    return "not-a-number"


def _run_cont(k, inst):
    start = _value(k, "start", inst.ks)
    stop = _value(k, "stop", inst.ke)
    if inst.kn == "int":
        n = k.int("n_points", ge=-1, le=4, size=True) if k.mode != "sym" else k.int("n_points")
    else:
        n = _value(k, "n_points", inst.kn)
    cls = k.fn("lcm.grids." + inst.cls)
    err = k.fn("lcm.exceptions.GridInitializationError")
    out = k.call_fn(cls, start=start, stop=stop, n_points=n)
    if isinstance(out, Raised):
        k.ensures("rejection-is-grid-initialization-error", isinstance(out.exc, err))
        return None
    g = k.call_fn(out.to_jax)
    if isinstance(g, Raised):
        k.fail("accepted-grid-materialises", repr(g))
        return None
    return start, stop, n, g


def continuous_grid_contract(k, inst):
    """(statement of C16) the constructor raises GridInitializationError, or the array form has exactly
    n_points finite strictly increasing values, first = start, last = stop for n >= 2, equally spaced on
    the linear (Linspace) / logarithmic (Logspace) scale."""
    r = _run_cont(k, inst)
    if r is None:
        return
    start, stop, n, g = r
    numeric = inst.ks in NUMERIC and inst.ke in NUMERIC and inst.kn in ("int", "bool")
    k.ensures("accepted-only-if-numeric-finite-bounds-and-int-n", numeric)
    if not numeric:
        if k.mode == "native":
            import numpy as np

            k.ensures("all-finite", bool(np.all(np.isfinite(g))))
        return
    shp = k.shape(g)
    k.ensures("exactly-n-points", L.And(len(shp) == 1, L.eq(shp[0], n) if len(shp) == 1 else False, n >= 1))
    if len(shp) != 1:
        return
    log = inst.cls == "LogspaceGrid"
    if k.mode == "native":
        import numpy as np

        k.ensures("all-finite", bool(np.all(np.isfinite(g))))
        if not np.all(np.isfinite(g)):
            return
    if log and k.mode != "native":
        M.exp_log(start)
        M.exp_log(stop)
        M.log_mono(start, stop)
    k.ensures("first-is-start", k.close(k.at(g, (0,)), start))
    k.ensures("last-is-stop", L.Implies(n >= 2, k.close(k.at(g, (n - 1,)), stop)))
    for (i,) in k.indices([n - 1]):
        a, b = k.at(g, (i,)), k.at(g, (i + 1,))
        if log and k.mode != "native":
            from pyvc.stubs.jax_impl import log_term
            from pyvc.values import T

            ls, le = T(log_term(start)), T(log_term(stop))
            h = (le - ls) / (n - 1)
            M.exp_mono(ls + i * h, ls + (i + 1) * h)
            M.log_exp(ls + i * h)
            M.log_exp(ls + (i + 1) * h)
            k.ensures("strictly-increasing", a < b)
            k.ensures("equally-spaced-on-log-scale", L.eq((T(log_term(b)) - T(log_term(a))) * (n - 1), le - ls))
        elif log:
            import math

            k.ensures("strictly-increasing", a < b)
            k.ensures("equally-spaced-on-log-scale", k.close((math.log(b) - math.log(a)) * (n - 1), math.log(stop) - math.log(start), tol=1e-3))
        else:
            k.ensures("strictly-increasing", a < b)
            k.ensures("equally-spaced", k.close((b - a) * (n - 1), stop - start))


contract("lcm.grids.LinspaceGrid", family=cont_family_of("LinspaceGrid"), props=("C16", "C12"))(continuous_grid_contract)
contract("lcm.grids.LogspaceGrid", family=cont_family_of("LogspaceGrid"), props=("C16", "C12"))(continuous_grid_contract)


# ----------------------------------------------------------------------------- discrete grids
FIELD_KINDS = ("int", "float", "bool", "str", "none")


class DiscInst:
    def __init__(self, kinds, is_dataclass=True):
        self.kinds, self.is_dataclass = kinds, is_dataclass
        self.label = f"fields={kinds},dataclass={int(is_dataclass)}"


def disc_family(tier):
    kmax = 2 if tier == "quick" else 3
    out = [DiscInst((), False), DiscInst(("int",), False)]
    for n in range(1, kmax + 1):
        for kinds in itertools.product(FIELD_KINDS if n < 3 else ("int", "float", "bool"), repeat=n):
            out.append(DiscInst(kinds))
    return out


def _make_class(values, is_dataclass):
    ns = {"__annotations__": {f"f{i}": object for i in range(len(values))}}
    for i, v in enumerate(values):
        if v is not dataclasses.MISSING:
            ns[f"f{i}"] = v
    cls = type("Cat", (), ns)
    return dataclasses.dataclass(cls, kw_only=True) if is_dataclass else cls


@contract("lcm.grids.DiscreteGrid", family=disc_family, props=("C16", "C12"))
def discrete_grid_contract(k, inst):
    """(statement of C16) accepted exactly when the category class is a dataclass whose field values in
    declaration order are numerically 0, 1, 2, ...; every rejection is a GridInitializationError; the
    array form of an accepted grid is these codes."""
    vals = []
    for i, kd in enumerate(inst.kinds):
        if kd == "int":
            vals.append(k.int(f"v{i}", ge=-1, le=3))
        elif kd == "float":
            vals.append(k.real(f"v{i}"))
        elif kd == "bool":
            vals.append(k.bool(f"v{i}"))
        elif kd == "str":
            vals.append("a")
        else:
            vals.append(dataclasses.MISSING)  # field without a value: read as None
    cat = _make_class(vals, inst.is_dataclass)
    err = k.fn("lcm.exceptions.GridInitializationError")
    out = k.call(cat)
    numeric = inst.is_dataclass and all(kd in ("int", "float", "bool") for kd in inst.kinds) and len(inst.kinds) >= 1
    should_accept = L.And(*[L.eq(v, i) for i, v in enumerate(vals)]) if numeric else False
    if isinstance(out, Raised):
        k.ensures("rejection-is-grid-initialization-error", isinstance(out.exc, err))
        k.ensures("rejected-only-if-not-0-1-2", L.Not(should_accept))
        return
    k.ensures("accepted-only-if-dataclass-with-values-0-1-2", should_accept)
    g = k.call_fn(out.to_jax)
    if isinstance(g, Raised):
        k.fail("accepted-grid-materialises", repr(g))
        return
    shp = k.shape(g)
    k.ensures("array-form-length", len(shp) == 1 and bool(shp[0] == len(vals)))
    if len(shp) == 1 and shp[0] == len(vals):
        for i in range(len(vals)):
            k.ensures("array-form-is-the-codes", L.eq(k.at(g, (i,)), i))
