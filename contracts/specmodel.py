"""`SpecModel`: an evaluator of the user's function DAG written from the property statements (C01, C03,
C07, C13, C17): a model function is the user function applied to the model variables and '_period' by
name, to other model functions evaluated the same way, and to the parameters stored under its own name."""

from __future__ import annotations


def spec_eval(k, b, name, env, params=None, _memo=None):
    skel = b.skel
    memo = {} if _memo is None else _memo
    if name in memo:
        return memo[name]
    fnames = {n for n, _, _ in skel.functions}
    by_name = {}
    for p in skel.fparams(name):
        if p in fnames:
            by_name[p] = spec_eval(k, b, p, env, params, memo)
        elif p in env:
            by_name[p] = env[p]
        else:
            if params is None or name not in params or p not in params[name]:
                raise KeyError(f"spec: no value for argument {p} of {name}")
            by_name[p] = params[name][p]
    uf = b.funcs[name]
    out = uf(**by_name) if k.mode == "native" else uf.spec(by_name)
    memo[name] = out
    return out
