"""Finite structure families (DESIGN 2.4): signatures, ordered subsets."""

from __future__ import annotations

import itertools
import random

NAMES = ["d", "a", "e", "b", "c"]  # declaration order deliberately not alphabetical


def kind_patterns(n, kinds=("po", "pk", "ko")):
    """positional-only prefix, positional-or-keyword middle, keyword-only suffix"""
    out = []
    for i in range(n + 1):
        for j in range(i, n + 1):
            ks = ["po"] * i + ["pk"] * (j - i) + ["ko"] * (n - j)
            if all(k in kinds for k in ks):
                out.append(ks)
    return out


def signatures(max_n, kinds=("po", "pk", "ko"), min_n=0):
    out = []
    for n in range(min_n, max_n + 1):
        for ks in kind_patterns(n, kinds):
            out.append(list(zip(NAMES[:n], ks)))
    return out


def ordered_subsets(names, min_k=0, max_k=None):
    max_k = len(names) if max_k is None else max_k
    out = []
    for k in range(min_k, max_k + 1):
        out += [list(p) for p in itertools.permutations(names, k)]
    return out


def capped(items, cap, seed=0):
    """deterministic sample keeping the first and last element; returns (items, exhaustive?)"""
    if len(items) <= cap:
        return items, True
    rng = random.Random(seed)
    idx = sorted(set([0, len(items) - 1] + rng.sample(range(len(items)), cap - 2)))
    return [items[i] for i in idx], False


def sig_label(params):
    return "(" + ", ".join(f"{n}:{k}" for n, k in params) + ")"
