"""The Bellman operator written from the statement of C01 (and used by C02, C06, C11): for a state and a
choice combination of the grid, utility plus beta times the expected next-period value, where the next
value array is read exactly in discrete states (through the feasibility indexer for filter-restricted
states), multilinearly interpolated in continuous states and averaged with the transition probabilities."""

from __future__ import annotations

import itertools

from pyvc import logic as L

from .specmodel import spec_eval


# ----------------------------------------------------------------------------- interpolation (statement of C15/C14)
def _cell(k, c, n):
    """lower index and upper weight of the interpolation cell along one axis (see contracts/ndimage.py)"""
    if k.mode == "native":
        import math

        if c != c:  # a NaN coordinate (log of a non-positive value) makes the blend NaN, as in the real code
            return 0, c
        low = min(max(math.floor(c), 0), int(n) - 2)
        return low, c - low
    import z3

    from pyvc.ctx import cur
    from pyvc.values import T, lift

    ctx = cur()
    ce, ne = lift(c), lift(n)
    memo = ctx.memo.setdefault("spec-cells", {})
    key = (ce.hash(), str(ce), ne.hash())
    if key in memo:
        l = memo[key]
    else:
        l = z3.Int(ctx.fresh("cell"))
        memo[key] = l
        ctx.assume(z3.And(l >= 0, l <= ne - 2), tag="spec-cell")
        ctx.assume(z3.Implies(z3.And(ce >= 0, ce < z3.ToReal(ne) - 1), z3.And(z3.ToReal(l) <= ce, ce < z3.ToReal(l) + 1)), tag="spec-cell")
        ctx.assume(z3.Implies(ce < 0, l == 0), tag="spec-cell")
        ctx.assume(z3.Implies(ce >= z3.ToReal(ne) - 1, l == ne - 2), tag="spec-cell")
    return T(l), c - T(l)


def mli(k, read, sizes, coords):
    """multilinear blend of the 2^r corners of the cell of `coords`; read(index tuple) -> stored value"""
    r = len(sizes)
    if r == 0:
        return read(())
    cells = [_cell(k, coords[d], sizes[d]) for d in range(r)]
    blend = None
    for corner in itertools.product((0, 1), repeat=r):
        wt = None
        for d in range(r):
            l, w = cells[d]
            f = w if corner[d] else 1 - w
            wt = f if wt is None else wt * f
        term = wt * read(tuple(cells[d][0] + corner[d] for d in range(r)))
        blend = term if blend is None else blend + term
    return blend


def coordinate(k, kind, value, start, stop, n):
    """generalised coordinate of a value on a grid (C15 decides that the library's functions are the
    inverse of the grid); symbolic: an uninterpreted function shared by code (contract substitution) and
    specification; native: the defining formula"""
    if k.mode == "native":
        import math

        if kind == "lin":
            return (value - start) / ((stop - start) / (n - 1))
        if not value > 0:
            return float("nan")
        ls, le, lv = math.log(start), math.log(stop), math.log(value)
        h = (le - ls) / (n - 1)
        rk = math.floor((lv - ls) / h)
        lo, up = math.exp(ls + h * rk), math.exp(ls + h * (rk + 1))
        return rk + (value - lo) / (up - lo)
    import z3

    from pyvc.values import T, lift, _to_real

    f = z3.Function(f"coordinate.{kind}", z3.RealSort(), z3.RealSort(), z3.RealSort(), z3.IntSort(), z3.RealSort())
    return T(f(_to_real(lift(value)), _to_real(lift(start)), _to_real(lift(stop)), lift(n)))


def install_overrides(k, world):
    """contract substitution at call sites (modular verification): map_coordinates and the two
    coordinate functions are replaced by their contracts (decided under C15)"""
    if k.mode == "native":
        return lambda: None
    from pyvc.values import SymArray, T, lift

    def ov_map_coordinates(clo, args, kwargs):
        ba = clo._c.sig.bind(*args, **kwargs)
        inp, coords = ba.arguments["input"], ba.arguments["coordinates"]
        if isinstance(coords, SymArray):
            cs = [T(coords.get((i,))) if coords.ndim == 1 else None for i in range(int(coords.shape[0]))]
        else:
            cs = list(coords)
        if len(cs) != inp.ndim:
            raise ValueError("coordinates must be a sequence of length input.ndim")
        return mli(k, lambda ix: T(inp.get(tuple(lift(i) for i in ix))), list(inp.shape), cs)

    def ov_lin(clo, args, kwargs):
        ba = clo._c.sig.bind(*args, **kwargs)
        a = ba.arguments
        return coordinate(k, "lin", a["value"], a["start"], a["stop"], a["n_points"])

    def ov_log(clo, args, kwargs):
        ba = clo._c.sig.bind(*args, **kwargs)
        a = ba.arguments
        return coordinate(k, "log", a["value"], a["start"], a["stop"], a["n_points"])

    import z3

    from pyvc.ctx import cur
    from pyvc.values import _to_real, zdim

    def ov_grid(kind):
        def ov(clo, args, kwargs):
            ba = clo._c.sig.bind(*args, **kwargs)
            a = ba.arguments
            st, sp, n = _to_real(lift(a["start"])), _to_real(lift(a["stop"])), zdim(a["n_points"])
            f = z3.Function(f"gridpoint.{kind}", z3.RealSort(), z3.RealSort(), z3.IntSort(), z3.IntSort(), z3.RealSort())
            return SymArray((n,), lambda idx: f(st, sp, n, idx[0]), "float")

        return ov

    def ov_codes(clo, args, kwargs):
        self_ = args[0]
        n = len(self_.codes)
        f = z3.Function(f"label.{n}", z3.IntSort(), z3.IntSort())
        c = cur()
        key = ("labels", n)
        if key not in c.memo:
            c.memo[key] = True
            for i, code in enumerate(self_.codes):
                c.assume(f(z3.IntVal(i)) == lift(code), tag="labels")
        return SymArray((n,), lambda idx: f(idx[0]), "int")

    new = {
        "lcm.grid_helpers.linspace": ov_grid("lin"),
        "lcm.grid_helpers.logspace": ov_grid("log"),
        "lcm.grids.DiscreteGrid.to_jax": ov_codes,
        "lcm.ndimage.map_coordinates": ov_map_coordinates,
        "lcm.grid_helpers.get_linspace_coordinate": ov_lin,
        "lcm.grid_helpers.get_logspace_coordinate": ov_log,
    }
    old = dict(world.overrides)
    world.overrides.update(new)

    def restore():
        world.overrides.clear()
        world.overrides.update(old)

    return restore


# ----------------------------------------------------------------------------- the operator
class Layout:
    """variable classes of a skeleton in canonical order (statement of C05)"""

    def __init__(self, skel):
        order = skel.canonical_order()
        res = skel.restricted()
        st = {n for n, _ in skel.states}
        self.RS = [v for v in order if v in res and v in st]
        self.RC = [v for v in order if v in res and v not in st]
        self.DS = [v for v in order if v not in res and skel.is_disc(v) and v in st]
        self.DC = [v for v in order if v not in res and skel.is_disc(v) and v not in st]
        self.CS = [v for v in order if v not in res and not skel.is_disc(v) and v in st]
        self.CC = [v for v in order if v not in res and not skel.is_disc(v) and v not in st]


class Bellman:
    def __init__(self, k, b, im, period, params, vf_next, indexer_next):
        self.k, self.b, self.skel, self.im = k, b, b.skel, im
        self.t = period
        self.P = params
        self.vf_next = vf_next
        self.indexer_next = indexer_next
        self.lay = Layout(self.skel)
        self.is_last = period == self.skel.n_periods - 1

    def grid_size(self, v):
        k = self.k
        return k.shape(self.im.grids[v])[0]

    def grid_value(self, v, i):
        return self.k.at(self.im.grids[v], (i,))

    def env(self, idx_by_var):
        e = {v: self.grid_value(v, i) for v, i in idx_by_var.items()}
        e["_period"] = self.t
        return e

    def filters(self, env):
        return L.And(*[spec_eval(self.k, self.b, f, env) for f in self.skel.names_with_role("filter")]) if self.skel.names_with_role("filter") else True

    def constraints(self, env):
        cs = self.skel.names_with_role("constraint")
        return L.And(*[spec_eval(self.k, self.b, f, env, self.P) for f in cs]) if cs else True

    def continuation(self, env):
        """sum over the nodes of the stochastic states of prod of weights * interpolated next value"""
        k, skel, lay = self.k, self.skel, self.lay
        stoch = skel.stochastic_states()
        memo = {}
        nxt = {}
        for s, _ in skel.states:
            if s not in stoch:
                nxt[s] = spec_eval(k, self.b, "next_" + s, env, self.P, memo)
        total = None
        for labels in itertools.product(*[range(skel.n_labels(x)) for x in stoch]):
            wt = None
            for x, lab in zip(stoch, labels):
                deps = skel.fparams("next_" + x)
                w = k.at(self.P["shocks"][x], (*[env[d] for d in deps], lab))
                wt = w if wt is None else wt * w
            ns = dict(nxt)
            for x, lab in zip(stoch, labels):
                ns[x] = self.grid_value(x, lab)
            v = self.next_value(ns)
            term = v if wt is None else v * wt
            total = term if total is None else total + term
        return total

    def next_value(self, ns):
        """V_{t+1} at next states `ns` (labels for discrete, values for continuous states)"""
        k, skel, lay = self.k, self.skel, self.lay
        head = []
        if lay.RS:
            head.append(k.at(self.indexer_next, tuple(ns[v] for v in lay.RS)))
        head += [ns[v] for v in lay.DS]
        sizes = [self.grid_size(v) for v in lay.CS]
        coords = []
        for v in lay.CS:
            g = self.b.grid_syms[v]
            coords.append(coordinate(k, g[0], ns[v], g[1], g[2], g[3]))
        return mli(k, lambda ix: k.at(self.vf_next, (*head, *ix)), sizes, coords)

    def q(self, env):
        """(objective, feasible) of one state-choice combination"""
        u = spec_eval(self.k, self.b, "utility", env, self.P)
        f = self.constraints(env)
        if self.is_last:
            return u, f
        return u + self.P["beta"] * self.continuation(env), f
