"""Contracts for lcm.grid_helpers (C15, C16).  (*) from the statement of C15."""

from __future__ import annotations

from pyvc import logic as L
from pyvc.contract import Raised, contract


@contract("lcm.grid_helpers.get_linspace_coordinate", props=("C15", "C14"), scope="forall")
def linspace_coordinate_contract(k):
    """for every linear grid (start < stop, n >= 2) and every value: (*) the coordinate of grid point i
    is i, (*) coordinates increase strictly with the value, and coordinate * step = value - start."""
    n = k.int("n", ge=2, size=True)
    start, stop = k.real("start"), k.real("stop")
    k.requires(start < stop)
    v, v2 = k.real("v"), k.real("v2")
    c = k.call(v, start, stop, n)
    c2 = k.call(v2, start, stop, n)
    if isinstance(c, Raised) or isinstance(c2, Raised):
        k.fail("no-exception", repr(c))
        return
    k.ensures("strictly-increasing", L.Implies(v < v2, c < c2))
    k.ensures("affine", k.close(c * (stop - start), (v - start) * (n - 1)))
    i = k.int("i", ge=0, le=3)
    k.requires(i <= n - 1)
    node = start + i * ((stop - start) / (n - 1))
    ci = k.call(node, start, stop, n)
    k.ensures("node-index", (not isinstance(ci, Raised)) and k.close(ci, i))


@contract("lcm.grid_helpers.linspace", props=("C16", "C15"), scope="forall")
def linspace_contract(k):
    """linspace(start, stop, n) has n points, first = start, last = stop (n >= 2), equally spaced and
    strictly increasing when start < stop."""
    n = k.int("n", ge=1, size=True)
    start, stop = k.real("start"), k.real("stop")
    k.requires(start < stop)
    g = k.call(start, stop, n)
    if isinstance(g, Raised):
        k.fail("no-exception", repr(g))
        return
    k.ensures("n-points", L.And(len(k.shape(g)) == 1, L.eq(k.shape(g)[0], n)))
    k.ensures("first-is-start", k.close(k.at(g, (0,)), start))
    k.ensures("last-is-stop", L.Implies(n >= 2, k.close(k.at(g, (n - 1,)), stop)))
    for (i,) in k.indices([n - 1]):
        k.ensures("strictly-increasing", k.at(g, (i,)) < k.at(g, (i + 1,)))
        k.ensures("equally-spaced", k.close((k.at(g, (i + 1,)) - k.at(g, (i,))) * (n - 1), stop - start))


@contract("lcm.grid_helpers.linspace+get_linspace_coordinate+lcm.ndimage.map_coordinates", cid="C15.linear-grid-roundtrip", props=("C15", "C14"), scope="forall")
def linear_roundtrip_contract(k):
    """(*) interpolating a linear grid itself at the coordinate of any value returns that value (inside
    the range and, by linear continuation, outside it)."""
    n = k.int("n", ge=2, size=True)
    start, stop = k.real("start"), k.real("stop")
    k.requires(start < stop)
    v = k.real("v")
    g = k.call_fn(k.fn("lcm.grid_helpers.linspace"), start, stop, n)
    c = k.call_fn(k.fn("lcm.grid_helpers.get_linspace_coordinate"), v, start, stop, n)
    if isinstance(g, Raised) or isinstance(c, Raised):
        k.fail("no-exception", repr(g) + repr(c))
        return
    out = k.call_fn(k.fn("lcm.ndimage.map_coordinates"), g, [c])
    k.ensures("roundtrip", (not isinstance(out, Raised)) and k.close(out, v))


@contract("lcm.grid_helpers.get_logspace_coordinate", props=("C15", "C14"), scope="forall")
def logspace_coordinate_contract(k):
    """for every logarithmic grid (0 < start < stop, n >= 2) and every value inside its range: (*) the
    coordinate of grid point i is i, (*) coordinates increase strictly with the value; the coordinate lies
    in the cell [r, r + 1] found on the log scale.  Uses ground instances of exp/log facts (Mathlib) for
    the terms that occur."""
    n = k.int("n", ge=2, le=5, size=True)
    start, stop = k.real("start"), k.real("stop")
    if k.mode == "native":
        start = abs(start) + 0.5
        stop = start + abs(stop) + 1.0
    k.requires(L.And(start > 0, start < stop))
    f = k.target()
    # (a) nodes: value = exp(log(start) + i * (log(stop) - log(start)) / (n - 1))
    i = k.int("i", ge=0, le=4)
    k.requires(i <= n - 1)
    if k.mode == "native":
        import math

        h = (math.log(stop) - math.log(start)) / (n - 1)
        node = math.exp(math.log(start) + i * h)
        ci = k.call_fn(f, node, start, stop, n)
        k.ensures("node-index", (not isinstance(ci, Raised)) and abs(ci - i) <= 1e-3)
        v = start + (stop - start) * (abs(k.real("v")) % 1.0)
        v2 = start + (stop - start) * (abs(k.real("v2")) % 1.0)
        c, c2 = k.call_fn(f, v, start, stop, n), k.call_fn(f, v2, start, stop, n)
        ok = not isinstance(c, Raised) and not isinstance(c2, Raised)
        k.ensures("strictly-increasing", ok and ((not v < v2 - 1e-3) or c < c2))
        return
    from pyvc.stubs.jax_impl import exp, log
    from pyvc.values import T

    ls, le = log(start), log(stop)
    h = (le - ls) / (n - 1)
    node = exp(ls + h * i)
    ci = k.call_fn(f, node, start, stop, n)
    k.ensures("node-index", (not isinstance(ci, Raised)) and L.eq(ci, i))
    # (b) monotonicity inside the range
    v, v2 = k.real("v"), k.real("v2")
    k.requires(L.And(v >= start, v2 <= stop, v < v2))
    c = k.call_fn(f, v, start, stop, n)
    c2 = k.call_fn(f, v2, start, stop, n)
    if isinstance(c, Raised) or isinstance(c2, Raised):
        k.fail("no-exception", repr(c) + repr(c2))
        return
    k.ensures("strictly-increasing", c < c2)
