"""Contracts for C12: specifications that break a documented rule are rejected when the model or the
functions are created (never later, never silently); accepted specifications solve without an internal
error."""

from __future__ import annotations

from pyvc import logic as L
from pyvc.contract import Raised, contract

from .skeletons import Skel, build, by_label, filter_only_state_skeleton, skeletons, symbolic_params, transition_only_state_skeleton


class RuleInst:
    def __init__(self, rule):
        self.rule = rule
        self.label = f"rule={rule}"


MODEL_RULES = [
    "valid",
    "n_periods<1",
    "no-utility",
    "state-without-next-function",
    "name-is-state-and-choice",
    "choice-not-a-grid",
    "state-not-a-grid",
    "function-not-callable",
    "functions-not-a-dict",
    "choices-not-a-dict",
    "states-not-a-dict",
    "non-string-state-key",
    "non-string-function-key",
]


@contract("lcm.user_model.Model", family=lambda tier: [RuleInst(r) for r in MODEL_RULES], props=("C12",))
def model_validation_contract(k, inst):
    """(statement of C12) constructing a Model raises ModelInitilizationError iff a documented rule is
    broken (fewer than one period -- for EVERY integer n_periods --, no utility, a state without transition
    function, a name used as state and choice, non-grid or non-callable entries, non-dict attributes,
    non-string keys); a valid specification is accepted."""
    skel = by_label("consumption-saving", "quick")
    b = build(k, skel)
    m = b.model
    Model = k.fn("lcm.user_model.Model")
    err = k.fn("lcm.exceptions.ModelInitilizationError")
    kw = {"n_periods": m.n_periods, "functions": dict(m.functions), "choices": dict(m.choices), "states": dict(m.states)}
    r = inst.rule
    bad = True
    if r == "valid":
        bad = False
    elif r == "n_periods<1":
        n = k.int("n_periods", ge=-2, le=3)
        kw["n_periods"] = n
        bad = n < 1
    elif r == "no-utility":
        del kw["functions"]["utility"]
    elif r == "state-without-next-function":
        del kw["functions"]["next_wealth"]
    elif r == "name-is-state-and-choice":
        kw["choices"]["wealth"] = kw["states"]["wealth"]
    elif r == "choice-not-a-grid":
        kw["choices"]["consumption"] = [1, 2, 3]
    elif r == "state-not-a-grid":
        kw["states"]["wealth"] = 5
    elif r == "function-not-callable":
        kw["functions"]["utility"] = 3.0
    elif r == "functions-not-a-dict":
        kw["functions"] = list(kw["functions"].values())
    elif r == "choices-not-a-dict":
        kw["choices"] = list(kw["choices"])
    elif r == "states-not-a-dict":
        kw["states"] = None
    elif r == "non-string-state-key":
        kw["states"][3] = kw["states"]["wealth"]
    elif r == "non-string-function-key":
        kw["functions"][7] = kw["functions"]["utility"]
    out = k.call_fn(Model, **kw)
    if isinstance(out, Raised):
        k.ensures("rejection-is-the-initialization-error", isinstance(out.exc, err))
        k.ensures("rejected-only-if-a-rule-is-broken", bad)
    else:
        k.ensures("accepted-only-if-no-rule-is-broken", L.Not(bad))


def _late_rule_skeletons():
    D2 = ("disc", 2)
    base = dict(
        states=[("health", D2), ("wealth", "lin")],
        choices=[("working", D2), ("consumption", "lin")],
    )
    out = {}
    out["stochastic-transition-on-continuous-state"] = Skel(
        "stochastic-on-continuous", 2, base["states"], base["choices"],
        [("utility", ["consumption", "working", "health", "wealth"], "utility"), ("next_health", ["health"], "next"), ("next_wealth", ["wealth", "health"], "stoch")],
    )
    out["stochastic-transition-on-continuous-state-with-valid-arguments"] = Skel(
        "stochastic-on-continuous-valid-arguments", 2, base["states"], base["choices"],
        [("utility", ["consumption", "working", "health", "wealth"], "utility"), ("next_health", ["health"], "next"), ("next_wealth", ["health", "_period"], "stoch")],
    )
    out["stochastic-transition-on-continuous-state-next-to-a-valid-stochastic-state"] = Skel(
        "stochastic-on-continuous-plus-valid-stochastic", 2, base["states"], base["choices"],
        [("utility", ["consumption", "working", "health", "wealth"], "utility"), ("next_wealth", ["health"], "stoch"), ("next_health", ["health", "working"], "stoch")],
    )
    out["stochastic-transition-depends-on-continuous-variable"] = Skel(
        "stochastic-depends-on-continuous", 2, base["states"], base["choices"],
        [("utility", ["consumption", "working", "health", "wealth"], "utility"), ("next_health", ["health", "wealth"], "stoch"), ("next_wealth", ["wealth", "consumption"], "next")],
    )
    out["filter-with-parameters"] = Skel(
        "filter-with-parameters", 2, base["states"], base["choices"],
        [("utility", ["consumption", "working", "health", "wealth"], "utility"), ("next_health", ["health"], "next"), ("next_wealth", ["wealth", "consumption"], "next"), ("work_filter", ["working", "health", "threshold"], "filter")],
    )
    out["filter-with-parameters"].filters_may_reject_everything = True  # rejected before any space is created
    # (F11, fixed) filters that admit no combination at all: rejected when the spaces are created
    nothing = Skel(
        "filter-admitting-nothing", 2, base["states"], base["choices"],
        [("utility", ["consumption", "working", "health", "wealth"], "utility"), ("next_health", ["health"], "next"), ("next_wealth", ["wealth", "consumption"], "next"), ("work_filter", ["working", "health"], "filter")],
    )
    nothing.filters_may_reject_everything = True
    out["filter-admitting-no-combination"] = nothing
    return out


@contract("lcm.entry_point.get_lcm_function", cid="C12.rejected-when-functions-are-created", family=lambda tier: [RuleInst(r) for r in _late_rule_skeletons()], props=("C12",))
def late_rejection_contract(k, inst):
    """(statement of C12) a stochastic transition on or depending on a continuous variable and a filter
    with parameters are rejected with ValueError when the functions are created (get_lcm_function)."""
    skel = _late_rule_skeletons()[inst.rule]
    b = build(k, skel)
    if inst.rule == "filter-admitting-no-combination":
        import itertools

        from .specmodel import spec_eval

        combos = [{"working": w, "health": h, "_period": 0} for w, h in itertools.product(range(2), range(2))]
        rejects_all = L.And(*[L.Not(spec_eval(k, b, "work_filter", env)) for env in combos])
        if k.mode == "native":
            from pyvc.contract import SkipInstance

            if not bool(rejects_all):
                raise SkipInstance("the sampled filter admits a combination")
        else:
            k.requires(rejects_all)
    out = k.call(model=b.model, targets="solve")
    k.ensures("rejected-with-value-error-at-creation", isinstance(out, Raised) and isinstance(out.exc, ValueError))


class RunInst:
    def __init__(self, skel):
        self.skel = skel
        self.label = skel.label


def run_family(tier):
    from .skeletons import aux_filter_skeleton

    from .skeletons import unequal_stochastic_skeleton

    extra = [aux_filter_skeleton(), filter_only_state_skeleton(), transition_only_state_skeleton(), unequal_stochastic_skeleton()]
    return [RunInst(s) for s in skeletons(tier) + extra]


@contract("lcm.entry_point.get_lcm_function", cid="C12.accepted-specifications-solve", family=run_family, props=("C12",))
def accepted_runs_contract(k, inst):
    """(statement of C12) every accepted specification can be solved with parameters that follow the
    template, without an internal error: no exception on any path of get_lcm_function and of the solve
    function, and every side condition of the library calls (shapes, non-empty reductions, sorted segment
    ids, non-zero denominators, positive arguments of log) holds."""
    from .bellman import install_overrides

    skel = inst.skel
    # interpolation kernel and coordinate functions are used through their contracts (C15), which carry
    # their own side conditions (positive arguments of log, non-zero cell widths)
    restore = install_overrides(k, k.world) if k.mode != "native" else (lambda: None)
    try:
        b = build(k, skel)
        from .solve import skip_unsupported_filters

        # assumption of the claim (listed in the evidence): the filters leave every period a non-empty space
        skip_unsupported_filters(k, b, skel)
        got = k.call(model=b.model, targets="solve", jit=False)
        if isinstance(got, Raised):
            k.fail("functions-created", repr(got))
            return
        solve_model, template = got
        P = symbolic_params(k, template)
        out = k.call_fn(solve_model, P)
    finally:
        restore()
    if isinstance(out, Raised):
        k.fail("solve-runs-without-internal-error", repr(out))
        return
    k.ensures("one-array-per-period", len(out) == skel.n_periods)
