"""Contracts for lcm.discrete_problem (C18 third sentence, C05, C20)."""

from __future__ import annotations

import itertools

from pyvc import logic as L
from pyvc.contract import Raised, contract

from .argmax import merge, segment_pre, sorted_ids


class NoShockInst:
    def __init__(self, rank, choice_axes, has_segments):
        self.rank, self.choice_axes, self.has_segments = rank, choice_axes, has_segments
        self.label = f"rank={rank},choice_axes={choice_axes},segments={int(has_segments)}"


def noshock_family(tier):
    max_rank = 3 if tier == "quick" else 4
    out = []
    for r in range(1, max_rank + 1):
        for seg in (False, True):
            if seg and r > 3:
                continue  # rank 4 with segments: the `attained` VC is not stable within budget (not registered; DESIGN 5)
            first = 1 if seg else 0  # with segments, axis 0 is the joint axis of restricted variables
            cands = [None]
            for m in range(1, r - first + 1):
                cands += list(itertools.combinations(range(first, r), m))
            for ca in cands:
                if ca is not None and len(ca) == r and not seg:
                    pass  # all axes reduced: scalar result, allowed
                out.append(NoShockInst(r, ca, seg))
    return out


@contract("lcm.discrete_problem._solve_discrete_problem_no_shocks", family=noshock_family, props=("C18", "C01", "C05"))
def no_shocks_contract(k, inst):
    """out[state] = max over the dense choice axes and over the rows of the state's segment of
    cc_values: every such entry is <= out[state] and one of them equals it; the choice axes are
    removed, axis 0 has one entry per segment."""
    r, ca = inst.rank, inst.choice_axes
    axes = tuple(ca) if ca is not None else ()
    ns = [k.int(f"n{d}", ge=(1 if d in axes else 0), size=True) for d in range(r)]
    cc = k.array("cc", ns, "float")
    if inst.has_segments:
        num = k.int("num", ge=0, size=True)
        ids = k.array("ids", [ns[0]], "int", gen=lambda rng, shp: sorted_ids(rng, shp[0], int(num)))
        segment_pre(k, ns[0], num, ids)
        segs = {"segment_ids": ids, "num_segments": num if k.mode != "native" else int(num)}
    else:
        segs = None
    out = k.call(cc, ca, segs, {})
    if isinstance(out, Raised):
        k.fail("no-exception", repr(out))
        return
    keep = [d for d in range(r) if d not in axes]
    oshape = [(num if (inst.has_segments and d == 0) else ns[d]) for d in keep]
    k.ensures("shape", L.And(len(k.shape(out)) == len(oshape), *[L.eq(x, y) for x, y in zip(k.shape(out), oshape)]))
    red = [ns[d] for d in axes]
    for s in k.indices(oshape, name="s"):
        v = k.at(out, s)

        def entry(j, dc):
            b = list(s)
            if inst.has_segments:
                b[0] = j
            return k.at(cc, merge(r, axes, b, dc))

        if inst.has_segments:
            in_seg = lambda j: L.eq(k.at(ids, (j,)), s[0])
            k.ensures("upper-bound", L.forall([ns[0], *red], lambda q: L.Implies(in_seg(q[0]), entry(q[0], q[1:]) <= v)))
            k.ensures("attained", L.exists([ns[0], *red], lambda q: L.And(in_seg(q[0]), L.eq(entry(q[0], q[1:]), v))))
        else:
            k.ensures("upper-bound", L.forall(red, lambda q: entry(None, q) <= v))
            k.ensures("attained", L.exists(red, lambda q: L.eq(entry(None, q), v)))


def _skel_family(tier):
    from .skeletons import skeletons

    return skeletons(tier)


@contract("lcm.discrete_problem._determine_dense_discrete_choice_axes", family=_skel_family, props=("C05", "C10", "C01"))
def dense_choice_axes_contract(k, skel):
    """(statement of C05) in the array of conditional continuation values -- axes [joint axis of restricted
    variables, if any] + unrestricted discrete states + unrestricted discrete choices + continuous states --
    the returned positions are exactly those of the unrestricted discrete choices (None if there are none);
    the simulation variant counts from the agent axis."""
    from .bellman import Layout
    from .skeletons import build

    b = build(k, skel)
    im = k.call_fn(k.fn("lcm.input_processing.process_model.process_model"), b.model)
    if isinstance(im, Raised):
        k.fail("model-processed", repr(im))
        return
    lay = Layout(skel)
    axes = (["__sparse__"] if (lay.RS or lay.RC) else []) + lay.DS + lay.DC + lay.CS
    want = tuple(i for i, a in enumerate(axes) if a in lay.DC) or None
    out = k.call(im.variable_info)
    k.ensures("positions-of-unrestricted-discrete-choices", (not isinstance(out, Raised)) and out == want)
    sim = k.call_fn(k.fn("lcm.simulate.determine_discrete_dense_choice_axes"), im.variable_info)
    want_sim = tuple(range(1, len(lay.DC) + 1)) or None
    k.ensures("simulation-positions-after-the-agent-axis", (not isinstance(sim, Raised)) and sim == want_sim)
