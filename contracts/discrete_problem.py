"""Contracts for lcm.discrete_problem (C18 third sentence, C05, C20)."""

from __future__ import annotations

import itertools

from pyvc import logic as L
from pyvc.contract import Raised, contract

from .argmax import merge, segment_pre, sorted_ids


class NoShockInst:
    def __init__(self, rank, choice_axes, has_segments):
        self.rank, self.choice_axes, self.has_segments = rank, choice_axes, has_segments
        self.label = f"rank={rank},choice_axes={choice_axes},segments={int(has_segments)}"


def noshock_family(tier):
    max_rank = 3 if tier == "quick" else 4
    out = []
    for r in range(1, max_rank + 1):
        for seg in (False, True):
            if seg and r > 3:
                continue  # rank 4 with segments: the `attained` VC is not stable within budget (not registered; DESIGN 5)
            first = 1 if seg else 0  # with segments, axis 0 is the joint axis of restricted variables
            cands = [None]
            for m in range(1, r - first + 1):
                cands += list(itertools.combinations(range(first, r), m))
            for ca in cands:
                if ca is not None and len(ca) == r and not seg:
                    pass  # all axes reduced: scalar result, allowed
                out.append(NoShockInst(r, ca, seg))
    return out


@contract("lcm.discrete_problem._solve_discrete_problem_no_shocks", family=noshock_family, props=("C18", "C01", "C05"))
def no_shocks_contract(k, inst):
    """out[state] = max over the dense choice axes and over the rows of the state's segment of
    cc_values: every such entry is <= out[state] and one of them equals it; the choice axes are
    removed, axis 0 has one entry per segment."""
    r, ca = inst.rank, inst.choice_axes
    axes = tuple(ca) if ca is not None else ()
    ns = [k.int(f"n{d}", ge=(1 if d in axes else 0), size=True) for d in range(r)]
    cc = k.array("cc", ns, "float")
    if inst.has_segments:
        num = k.int("num", ge=0, size=True)
        ids = k.array("ids", [ns[0]], "int", gen=lambda rng, shp: sorted_ids(rng, shp[0], int(num)))
        segment_pre(k, ns[0], num, ids)
        segs = {"segment_ids": ids, "num_segments": num if k.mode != "native" else int(num)}
    else:
        segs = None
    out = k.call(cc, ca, segs, {})
    if isinstance(out, Raised):
        k.fail("no-exception", repr(out))
        return
    keep = [d for d in range(r) if d not in axes]
    oshape = [(num if (inst.has_segments and d == 0) else ns[d]) for d in keep]
    k.ensures("shape", L.And(len(k.shape(out)) == len(oshape), *[L.eq(x, y) for x, y in zip(k.shape(out), oshape)]))
    red = [ns[d] for d in axes]
    for s in k.indices(oshape, name="s"):
        v = k.at(out, s)

        def entry(j, dc):
            b = list(s)
            if inst.has_segments:
                b[0] = j
            return k.at(cc, merge(r, axes, b, dc))

        if inst.has_segments:
            in_seg = lambda j: L.eq(k.at(ids, (j,)), s[0])
            k.ensures("upper-bound", L.forall([ns[0], *red], lambda q: L.Implies(in_seg(q[0]), entry(q[0], q[1:]) <= v)))
            k.ensures("attained", L.exists([ns[0], *red], lambda q: L.And(in_seg(q[0]), L.eq(entry(q[0], q[1:]), v))))
        else:
            k.ensures("upper-bound", L.forall(red, lambda q: entry(None, q) <= v))
            k.ensures("attained", L.exists(red, lambda q: L.eq(entry(None, q), v)))


def _skel_family(tier):
    from .skeletons import skeletons

    return skeletons(tier)


@contract("lcm.discrete_problem._determine_dense_discrete_choice_axes", family=_skel_family, props=("C05", "C10", "C01"))
def dense_choice_axes_contract(k, skel):
    """(statement of C05) in the array of conditional continuation values -- axes [joint axis of restricted
    variables, if any] + unrestricted discrete states + unrestricted discrete choices + continuous states --
    the returned positions are exactly those of the unrestricted discrete choices (None if there are none);
    the simulation variant counts from the agent axis."""
    from .bellman import Layout
    from .skeletons import build

    b = build(k, skel)
    im = k.call_fn(k.fn("lcm.input_processing.process_model.process_model"), b.model)
    if isinstance(im, Raised):
        k.fail("model-processed", repr(im))
        return
    lay = Layout(skel)
    axes = (["__sparse__"] if (lay.RS or lay.RC) else []) + lay.DS + lay.DC + lay.CS
    want = tuple(i for i, a in enumerate(axes) if a in lay.DC) or None
    out = k.call(im.variable_info)
    k.ensures("positions-of-unrestricted-discrete-choices", (not isinstance(out, Raised)) and out == want)
    sim = k.call_fn(k.fn("lcm.simulate.determine_discrete_dense_choice_axes"), im.variable_info)
    want_sim = tuple(range(1, len(lay.DC) + 1)) or None
    k.ensures("simulation-positions-after-the-agent-axis", (not isinstance(sim, Raised)) and sim == want_sim)


# ----------------------------------------------------------------------------- C20: extreme-value aggregation
class LSEInst:
    def __init__(self, trailing):
        self.trailing = trailing
        self.label = f"trailing_rank={trailing}"


@contract("lcm.discrete_problem._segment_logsumexp", family=lambda tier: [LSEInst(t) for t in ((0, 1) if tier == "quick" else (0, 1, 2))], props=("C20",))
def segment_logsumexp_contract(k, inst):
    """(statement of C20, segment layout) for sorted ids with non-empty segments: (stable) every argument of exp
    is <= 0 and one per segment is 0; the result is log of the sum over the segment of exp(a) and lies between the
    segment maximum and the maximum plus log(number of rows in the segment).
    Finite sums are uninterpreted; the sum lemmas used (homogeneity, bounds from summand bounds) and the exp/log
    facts are Mathlib facts instantiated on the occurring terms (assumed)."""
    n = k.int("n", ge=1, le=4, size=True)
    num = k.int("num", ge=1, le=3, size=True)
    tr = [k.int(f"t{q}", ge=1, le=2, size=True) for q in range(inst.trailing)]
    a = k.array("a", [n, *tr], "float", values=[-2.0, -1.0, 0.0, 0.5, 1.0, 3.0])
    ids = k.array("ids", [n], "int", gen=lambda rng, shp: sorted_ids(rng, shp[0], int(num)))
    segment_pre(k, n, num, ids)
    info = {"segment_ids": ids, "num_segments": num if k.mode != "native" else int(num)}
    out = k.call(a, info)
    if isinstance(out, Raised):
        k.fail("no-exception", repr(out))
        return
    if k.mode == "native":
        import numpy as np

        aa, ii = np.asarray(a, dtype=float), np.asarray(ids)
        for r in range(int(num)):
            rows = aa[ii == r]
            want = np.log(np.exp(rows).sum(axis=0))
            got = np.asarray(out)[r]
            k.ensures("log-of-sum-of-exp", bool(np.allclose(got, want, rtol=1e-4, atol=1e-5)))
            k.ensures("between-max-and-max-plus-log-count", bool(np.all(got >= rows.max(axis=0) - 1e-5) and np.all(got <= rows.max(axis=0) + np.log(len(rows)) + 1e-5)))
        return
    import z3

    from pyvc.ctx import cur
    from pyvc.stubs import jnp_impl as J
    from pyvc.stubs.jax_impl import _EXP, _LOG
    from pyvc.values import T

    ctx = cur()
    exp_args = ctx.memo.get("exp-array-args", [])
    sums = ctx.memo.get("segsums", [])
    k.ensures("one-elementwise-exp-and-one-segment-sum", len(exp_args) == 1 and len(sums) == 1)
    if len(exp_args) != 1 or len(sums) != 1:
        return
    arg, ss = exp_args[0], sums[0]
    # specification-side maximum per segment (its witness row is ghost state of the specification)
    m = J.segment_max(a, ids, num, indices_are_sorted=True)
    for idx in k.indices([n, *tr], name="row"):
        j, t = idx[0], idx[1:]
        k.ensures("stable:every-exponent-argument-is-nonpositive", T(arg.get(tuple(x.e for x in idx)) <= 0))
    for st in k.indices([num, *tr], name="seg"):
        r, t = st[0], st[1:]
        te = tuple(x.e for x in t)
        w = m.witness(r.e, *te)  # a row of segment r attaining the maximum
        k.ensures("stable:one-exponent-argument-per-segment-is-zero", T(z3.And(w >= 0, w < n.e, ids.get((w,)) == r.e, arg.get((w, *te)) == 0)))
        mr = m.get((r.e, *te))
        SS = ss.S(r.e, *te)
        # --- finite-sum lemma instances (Mathlib: Finset.single_le_sum, Finset.sum_le_card_nsmul), premises proved
        jj = z3.Int("lemma.j")
        summand = lambda jx: _EXP(arg.get((jx, *te)))
        in_seg = lambda jx: z3.And(jx >= 0, jx < n.e, ids.get((jx,)) == r.e)
        ctx.assume(z3.ForAll([jj], summand(jj) > 0), tag="math:Real.exp_pos (all rows)")
        ctx.assume(z3.ForAll([jj], z3.Implies(arg.get((jj, *te)) <= 0, summand(jj) <= 1)), tag="math:Real.exp_le_one_of_nonpos (all rows)")
        ctx.assume(_EXP(z3.RealVal(0)) == 1, tag="math:Real.exp_zero")
        k.ensures("lemma-premise:summands-in-(0,1]", T(z3.ForAll([jj], z3.Implies(in_seg(jj), z3.And(summand(jj) > 0, summand(jj) <= 1)))))
        count = z3.Int(ctx.fresh("rows-in-segment"))
        ctx.assume(z3.And(count >= 1, count <= n.e), tag="spec")
        ctx.assume(z3.And(SS >= summand(w), SS <= z3.ToReal(count)), tag="math:Finset.single_le_sum, Finset.sum_le_card_nsmul")
        ctx.trusted.add("finite-sum lemmas (assumed, premises discharged): a sum of non-negative terms bounds each term; a sum of terms <= 1 is <= the number of terms")
        # log facts for the occurring terms
        ctx.assume(z3.And(_LOG(z3.RealVal(1)) == 0, z3.Implies(z3.And(SS >= 1), _LOG(SS) >= 0), z3.Implies(z3.And(SS > 0, SS <= z3.ToReal(count)), _LOG(SS) <= _LOG(z3.ToReal(count)))), tag="math:Real.log_le_log")
        res = out.get((r.e, *te))
        k.ensures("result-is-max-plus-log-of-the-shifted-sum", T(res == mr + _LOG(SS)))
        k.ensures("between-max-and-max-plus-log-count", T(z3.And(res >= mr, res <= mr + _LOG(z3.ToReal(count)))))
        # --- identity: log sum exp(a) (homogeneity of finite sums: sum_j c x_j = c sum_j x_j, Finset.mul_sum)
        SSspec = z3.Real(ctx.fresh("sum-of-exp-a-over-segment"))
        c = _EXP(-mr)
        ctx.assume(z3.ForAll([jj], _EXP(a.get((jj, *te)) - mr) == _EXP(a.get((jj, *te))) * c), tag="math:Real.exp_sub (all rows)")
        k.ensures("lemma-premise:shifted-summand-is-c-times-summand", T(z3.ForAll([jj], z3.Implies(in_seg(jj), summand(jj) == _EXP(a.get((jj, *te))) * c))))
        ctx.assume(SS == SSspec * c, tag="math:Finset.mul_sum (premise discharged)")
        ctx.assume(z3.And(c > 0, _LOG(c) == -mr, z3.Implies(z3.And(SSspec > 0, c > 0), _LOG(SSspec * c) == _LOG(SSspec) + _LOG(c))), tag="math:Real.exp_pos, Real.log_exp, Real.log_mul")
        k.ensures("log-of-sum-of-exp", T(z3.Implies(SSspec > 0, res == _LOG(SSspec))))


class EmaxInst:
    def __init__(self, rank, axes, seg):
        self.rank, self.axes, self.seg = rank, axes, seg
        self.label = f"rank={rank},choice_axes={axes},segments={int(seg)}"


def emax_family(tier):
    out = []
    for r in (1, 2) if tier == "quick" else (1, 2, 3):
        for seg in (False, True):
            first = 1 if seg else 0
            cands = [None] + [c for m in range(1, r - first + 1) for c in itertools.combinations(range(first, r), m)]
            for ca in cands:
                if ca is None and not seg:
                    continue
                out.append(EmaxInst(r, ca, seg))
    return out


@contract("lcm.discrete_problem._calculate_emax_extreme_value_shocks", family=emax_family, props=("C20",))
def emax_contract(k, inst):
    """(statement of C20, axis layout and composition) the aggregation is scale * logsumexp(values / scale) over
    exactly the dense choice axes, followed -- if there are segments -- by scale * segment_logsumexp(x / scale) over
    the leading axis, with scale read from params['additive_utility_shock']['scale']."""
    r = inst.rank
    ns = [k.int(f"n{d}", ge=1, le=3, size=True) for d in range(r)]
    v = k.array("values", ns, "float", values=[-1.0, 0.0, 0.5, 2.0])
    s = k.real("scale") if k.mode != "native" else abs(k.real("scale")) + 0.5
    k.requires(s > 0)
    params = {"additive_utility_shock": {"scale": s}}
    segs = None
    if inst.seg:
        num = k.int("num", ge=1, le=2, size=True)
        ids = k.array("ids", [ns[0]], "int", gen=lambda rng, shp: sorted_ids(rng, shp[0], int(num)))
        segment_pre(k, ns[0], num, ids)
        segs = {"segment_ids": ids, "num_segments": num if k.mode != "native" else int(num)}
    out = k.call(v, inst.axes, segs, params)
    if isinstance(out, Raised):
        k.fail("no-exception", repr(out))
        return
    if k.mode == "native":
        import numpy as np

        x = np.asarray(v, dtype=float)
        if inst.axes is not None:
            x = s * np.log(np.exp(x / s).sum(axis=tuple(inst.axes)))
        if inst.seg:
            ii = np.asarray(ids)
            x = np.stack([s * np.log(np.exp(x[ii == q] / s).sum(axis=0)) for q in range(int(num))])
        k.ensures("scale-times-log-sum-exp-of-values-over-scale", bool(np.allclose(np.asarray(out), x, rtol=1e-4, atol=1e-5)))
        return
    import z3

    from pyvc.ctx import cur
    from pyvc.values import T

    ctx = cur()
    calls = ctx.memo.get("lse-calls", [])
    want_calls = 1 if inst.axes is not None else 0
    k.ensures("one-axis-log-sum-exp-iff-dense-choice-axes", len(calls) == want_calls)
    if len(calls) != want_calls:
        return
    cur_arr = v
    if inst.axes is not None:
        c = calls[0]
        k.ensures("reduces-exactly-the-dense-choice-axes", tuple(c["axes"]) == tuple(inst.axes))
        for idx in k.indices(ns, name="e"):
            k.ensures("log-sum-exp-of-values-over-scale", T(c["input"].get(tuple(x.e for x in idx)) == v.get(tuple(x.e for x in idx)) / s.e))
        keep = [d for d in range(r) if d not in inst.axes]
        if not inst.seg:
            oshape = [ns[d] for d in keep]
            for idx in k.indices(oshape, name="o"):
                got = out.get(tuple(x.e for x in idx)) if hasattr(out, "get") else out.e
                k.ensures("result-is-scale-times-log-sum-exp", T(got == s.e * c["out"].get(tuple(x.e for x in idx))))
            return
        cur_arr = c["out"]
    sums = ctx.memo.get("segsums", [])
    exps = ctx.memo.get("exp-array-args", [])
    k.ensures("segment-form-used-for-the-leading-axis", len(sums) == 1 and len(exps) == 1)
