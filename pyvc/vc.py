"""Discharging obligations: z3 (python API) first, then cvc5 and the Debian z3 4.8.12 on the same
SMT-LIB text when z3 answers `unknown`.  unsat = discharged, sat = refuted (model), anything
else = undecided.  Timeouts are always set (DESIGN 11)."""

from __future__ import annotations

import os
import shutil
import subprocess
import tempfile
import time

import z3

PROVE_TIMEOUT_MS = int(os.environ.get("PYVC_TIMEOUT_MS", "20000"))


class Result:
    def __init__(self, status, backend, secs, model=None, reason=""):
        self.status = status  # proved | refuted | unknown
        self.backend = backend
        self.secs = secs
        self.model = model
        self.reason = reason


SCALE = 1.0  # all solver budgets are multiplied by this (the retry of an open obligation uses 3.0)


def _solver(hyps, goal, timeout_ms, seed=0):
    s = z3.Solver()
    s.set("timeout", int(timeout_ms * SCALE))
    s.set("random_seed", seed)
    for h in hyps:
        s.add(h)
    s.add(z3.Not(goal))
    return s


def _symbols(e, cache):
    """names of the uninterpreted symbols occurring in e"""
    i = e.get_id()
    if i in cache:
        return cache[i][1]
    out = set()
    seen = set()
    todo = [e]
    while todo:
        x = todo.pop()
        j = x.get_id()
        if j in seen:
            continue
        seen.add(j)
        if z3.is_quantifier(x):
            todo.append(x.body())
            continue
        if z3.is_app(x):
            d = x.decl()
            if d.kind() == z3.Z3_OP_UNINTERPRETED:
                out.add(d.name())
            todo.extend(x.children())
    cache[i] = (e, out)  # keeping `e` alive keeps its id from being reused
    return out


_SYMCACHE = {}


HUB_PREFIXES = ("label.", "gridpoint.", "coordinate.", "objective.", "feasible.", "exp", "log", "euler_e", "-inf", "+inf", "nan", "mul!abs", "draw")
HUB_SUFFIXES = (".start", ".stop", ".n")
HUB_NAMES: set = set()  # names of uninterpreted model functions (registered by K.modelfunc)


def _is_hub(name):
    return name in HUB_NAMES or name.startswith(HUB_PREFIXES) or name.endswith(HUB_SUFFIXES)


_QCACHE: dict = {}


def _has_quantifier(e):
    key = e.get_id()
    hit = _QCACHE.get(key)
    if hit is not None and hit[0].eq(e):
        return hit[1]
    g = z3.Goal()
    g.add(e)
    out = z3.Probe("has-quantifiers")(g) > 0
    _QCACHE[key] = (e, out)  # keeps the AST alive: ids are reused after garbage collection
    return out


def relevant(hyps, goal, depth=None):
    """cone of influence: hypotheses connected to the goal through shared symbols.  Symbols that occur
    almost everywhere (user model functions, grid/label functions, grid sizes and bounds, exp/log) are
    hubs that do not propagate relevance.  Hypotheses made of hub symbols only are always kept.
    `depth`: number of propagation rounds (None: to the fixed point).  Dropping hypotheses is sound for
    `unsat`."""
    nonhub = lambda ss: {x for x in ss if not _is_hub(x)}
    syms = nonhub(_symbols(goal, _SYMCACHE))
    hs = [(h, nonhub(_symbols(h, _SYMCACHE))) for h in hyps]
    keep = [not ss for _, ss in hs]
    if depth is not None:
        for _ in range(depth):
            new = set()
            for i, (h, ss) in enumerate(hs):
                if not keep[i] and ss & syms:
                    keep[i] = True
                    new |= ss
            if not new - syms:
                break
            syms |= new
        return [h for (h, _), kp in zip(hs, keep) if kp]
    changed = True
    while changed:
        changed = False
        for i, (h, ss) in enumerate(hs):
            if keep[i]:
                continue
            if ss & syms:
                keep[i] = True
                if not ss <= syms:
                    syms |= ss
                    changed = True
    return [h for (h, _), kp in zip(hs, keep) if kp]


def discharge(hyps, goal, timeout_ms=None, want_model=False, portfolio=True, full=False):
    timeout_ms = timeout_ms or PROVE_TIMEOUT_MS
    g = z3.simplify(goal)
    if z3.is_true(g):
        return Result("proved", "simplifier", 0.0)
    if z3.is_false(g):
        # a clause that evaluated to False on concrete structure: holds only on an infeasible path
        if contradictory(hyps, 3000):
            return Result("proved", "z3-5.1", 0.0)
        return Result("refuted", "concrete", 0.0, reason="the clause is false on this (concrete) structure")
    pre = 0.0
    if not full:
        # goals that hold by ground reasoning (arithmetic, congruence) need none of the quantified hypotheses
        t00 = time.time()
        ground = [h for h in hyps if not _has_quantifier(h)]
        if len(ground) < len(hyps) and not _has_quantifier(goal):
            sg = _solver(ground, goal, 1500)
            if sg.check() == z3.unsat:
                return Result("proved", "z3-5.1", time.time() - t00)
        # shallow cones of influence first: few axioms, so E-matching cannot wander
        last = -1
        for depth in (1, 2):
            shallow = relevant(hyps, goal, depth)
            if len(shallow) == last or len(shallow) == len(hyps):
                break
            last = len(shallow)
            sd = _solver(shallow, goal, 2500)
            sd.set("smt.mbqi", False)
            if sd.check() == z3.unsat:
                return Result("proved", "z3-5.1", time.time() - t00)
        pre = time.time() - t00
        sub = relevant(hyps, goal)
        if len(sub) < len(hyps):
            # short budget: the reduced problem either goes through quickly or is abandoned
            r = discharge(sub, goal, min(timeout_ms, 6000), want_model, portfolio=False, full=True)
            if r.status == "proved":
                return r
            pre += r.secs
    t0 = time.time() - pre
    # quick first attempt: E-matching only with the explicit patterns
    s0 = _solver(hyps, goal, 1500)
    s0.set("smt.mbqi", False)
    if s0.check() == z3.unsat:
        return Result("proved", "z3-5.1", time.time() - t0)
    # next attempt for VCs with nonlinear terms: nonlinear products abstracted by an uninterpreted function (sound for `unsat`:
    # the abstraction only weakens the theory); decides goals that hold by congruence
    # (the rewrite also drops the explicit quantifier patterns, so this attempt runs with z3's inferred
    # triggers; MBQI on first -- fastest in practice -- then E-matching only)
    cache = {}
    ah = [abstract_products(h, cache) for h in hyps]
    ag = abstract_products(goal, cache)
    for mbqi, tmo in ((True, 4000), (False, 5000)):
        s3 = z3.Solver()
        s3.set("timeout", int(min(timeout_ms, tmo) * SCALE))
        if not mbqi:
            s3.set("smt.mbqi", False)
        for h in ah:
            s3.add(h)
        s3.add(z3.Not(ag))
        if s3.check() == z3.unsat:
            return Result("proved", "z3-5.1/products-abstracted", time.time() - t0)
    # next attempt: E-matching only (all proofs here are instantiation proofs; MBQI only slows them)
    s = _solver(hyps, goal, min(timeout_ms, 8000))
    s.set("smt.mbqi", False)
    r = s.check()
    if r == z3.unsat:
        return Result("proved", "z3-5.1", time.time() - t0)
    # second attempt: default configuration (MBQI on: can also answer sat with a model)
    s = _solver(hyps, goal, timeout_ms)
    r = s.check()
    dt = time.time() - t0
    if r == z3.unsat:
        return Result("proved", "z3-5.1", dt)
    if r == z3.sat:
        return Result("refuted", "z3-5.1", dt, model=s.model())
    reason = s.reason_unknown()
    if not portfolio:
        return Result("unknown", "z3-5.1", dt, reason=reason)
    # second opinions on the same SMT-LIB text
    smt = s.to_smt2()
    for name, cmd in _external_solvers(int(timeout_ms * SCALE)):
        t1 = time.time()
        out = _run_external(cmd, smt, int(timeout_ms * SCALE))
        d1 = time.time() - t1
        if out == "unsat":
            return Result("proved", name, dt + d1)
        if out == "sat":
            return Result("refuted", name, dt + d1, model=None, reason="sat by " + name)
    return Result("unknown", "z3-5.1+cvc5+z3-4.8", time.time() - t0, reason=reason)


def _external_solvers(timeout_ms):
    out = []
    secs = max(1, timeout_ms // 1000)
    if shutil.which("cvc5"):
        out.append(("cvc5-1.0", ["cvc5", "--lang=smt2", f"--tlimit={timeout_ms}", "--full-saturate-quant"]))
    if os.path.exists("/usr/bin/z3"):
        out.append(("z3-4.8.12", ["/usr/bin/z3", "-smt2", f"-T:{secs}", "-in"]))
    return out


def _run_external(cmd, smt, timeout_ms):
    try:
        if cmd[0] == "cvc5":
            with tempfile.NamedTemporaryFile("w", suffix=".smt2", delete=False) as fh:
                fh.write("(set-logic ALL)\n" + smt)
                path = fh.name
            try:
                p = subprocess.run(cmd + [path], capture_output=True, text=True, timeout=timeout_ms / 1000 + 5)
            finally:
                os.unlink(path)
        else:
            p = subprocess.run(cmd, input=smt, capture_output=True, text=True, timeout=timeout_ms / 1000 + 5)
        first = (p.stdout.strip().splitlines() or [""])[0].strip()
        return first if first in ("sat", "unsat") else "unknown"
    except (subprocess.TimeoutExpired, OSError):
        return "unknown"


def contradictory(hyps, timeout_ms=1000):
    """single bounded query: are the hypotheses provably contradictory?"""
    s = z3.Solver()
    s.set("timeout", timeout_ms)
    for h in hyps:
        s.add(h)
    return s.check() == z3.unsat


def satisfiable(hyps, timeout_ms=5000):
    """vacuity guard: the hypotheses of a contract path must not be contradictory.
    Returns 'sat' | 'unsat' | 'unknown' (unknown is accepted: quantified axioms)."""
    s = z3.Solver()
    s.set("timeout", timeout_ms)
    for h in hyps:
        s.add(h)
    r = s.check()
    return {z3.sat: "sat", z3.unsat: "unsat"}.get(r, "unknown")


_MULU = z3.Function("mul!abs", z3.RealSort(), z3.RealSort(), z3.RealSort())
_MULI = z3.Function("mul!absi", z3.IntSort(), z3.IntSort(), z3.IntSort())


def _is_num(e):
    return z3.is_int_value(e) or z3.is_rational_value(e)


def _has_nonlinear(e):
    seen = set()
    todo = [e]
    while todo:
        x = todo.pop()
        i = x.get_id()
        if i in seen:
            continue
        seen.add(i)
        if z3.is_quantifier(x):
            todo.append(x.body())
            continue
        if z3.is_app_of(x, z3.Z3_OP_MUL) and sum(0 if _is_num(c) else 1 for c in x.children()) >= 2:
            return True
        todo.extend(x.children())
    return False


def abstract_products(e, cache):
    """replace every product of >= 2 non-numeral factors by nested applications of an uninterpreted
    binary function (argument order preserved)"""
    i = e.get_id()
    if i in cache:
        return cache[i]
    if z3.is_quantifier(e):
        body = abstract_products(e.body(), cache)
        vs = [(e.var_name(j), e.var_sort(j)) for j in range(e.num_vars())]
        # rebuild with the same bound variables (de Bruijn indices are untouched by the rewrite)
        names = [z3.Const(n, srt) for n, srt in vs]
        inst = z3.substitute_vars(body, *reversed(names))
        out = z3.ForAll(names, inst) if e.is_forall() else z3.Exists(names, inst)
        cache[i] = out
        return out
    if not z3.is_app(e) or e.num_args() == 0:
        cache[i] = e
        return e
    args = [abstract_products(c, cache) for c in e.children()]
    if z3.is_app_of(e, z3.Z3_OP_MUL):
        nums = [a for a in args if _is_num(a)]
        rest = [a for a in args if not _is_num(a)]
        if len(rest) >= 2:
            f = _MULU if z3.is_real(e) else _MULI
            acc = rest[0]
            for r in rest[1:]:
                acc = f(acc, r)
            for nmb in nums:
                acc = nmb * acc
            cache[i] = acc
            return acc
    out = e.decl()(*args)
    cache[i] = out
    return out
