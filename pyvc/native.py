"""Native execution of the *real* lcm code of the working tree (CPython + JAX), used to replay
counterexamples and for the CPython differential.  Imports `lcm` from <repo>/src as a package.

`lcm.ndimage` imports `jax.util`, which newer JAX no longer has; when it is missing a two-function
in-process shim is installed (never written to /repo) so that the pipeline can be replayed.
"""

from __future__ import annotations

import importlib
import os
import sys


class NativeBackend:
    def __init__(self, src_root):
        self.src_root = os.path.abspath(src_root)
        self._ready = False
        self.shim_used = False

    def ensure(self):
        if self._ready:
            return
        os.environ.setdefault("JAX_PLATFORMS", "cpu")
        if self.src_root not in sys.path:
            sys.path.insert(0, self.src_root)
        # drop an already imported lcm that comes from elsewhere
        m = sys.modules.get("lcm")
        if m is not None and not os.path.abspath(getattr(m, "__file__", "") or "").startswith(self.src_root):
            for k in [k for k in sys.modules if k == "lcm" or k.startswith("lcm.")]:
                del sys.modules[k]
        import jax

        if not hasattr(jax, "util"):
            import types

            util = types.ModuleType("jax.util")

            def safe_zip(*args):
                args = [list(a) for a in args]
                n = len(args[0])
                for a in args[1:]:
                    assert len(a) == n, f"length mismatch: {[len(x) for x in args]}"
                return list(zip(*args))

            def unzip2(xys):
                xs, ys = [], []
                for x, y in xys:
                    xs.append(x)
                    ys.append(y)
                return tuple(xs), tuple(ys)

            util.safe_zip = safe_zip
            util.unzip2 = unzip2
            sys.modules["jax.util"] = util
            jax.util = util
            self.shim_used = True
        self._ready = True

    def module(self, name):
        self.ensure()
        return importlib.import_module(name)

    def function(self, qualname):
        self.ensure()
        parts = qualname.split(".")
        for cut in range(len(parts) - 1, 0, -1):
            mname = ".".join(parts[:cut])
            rel = os.path.join(self.src_root, mname.replace(".", "/"))
            if os.path.exists(rel + ".py") or os.path.exists(os.path.join(rel, "__init__.py")):
                obj = importlib.import_module(mname)
                for p in parts[cut:]:
                    obj = getattr(obj, p)
                return obj
        raise ImportError(qualname)

    # -- value conversion
    def to_native(self, v):
        import numpy as np

        from .values import Inf, NaN

        if isinstance(v, np.ndarray):
            import jax.numpy as jnp

            return jnp.asarray(v)
        if isinstance(v, Inf):
            return float("inf") * v.sign
        if isinstance(v, NaN):
            return float("nan")
        if isinstance(v, dict):
            return {k: self.to_native(x) for k, x in v.items()}
        if isinstance(v, (list, tuple)):
            return type(v)(self.to_native(x) for x in v)
        return v

    def from_native(self, v):
        import numpy as np

        try:
            import jax

            if isinstance(v, jax.Array):
                a = np.asarray(v)
                return a if a.ndim else a.item()
        except ImportError:  # pragma: no cover
            pass
        if isinstance(v, np.ndarray):
            return v if v.ndim else v.item()
        if isinstance(v, np.generic):
            return v.item()
        if isinstance(v, dict):
            return {k: self.from_native(x) for k, x in v.items()}
        if isinstance(v, tuple):
            return tuple(self.from_native(x) for x in v)
        if isinstance(v, list):
            return [self.from_native(x) for x in v]
        return v

    def call(self, f, args, kwargs):
        from .contract import Raised

        self.ensure()
        a = [self.to_native(x) for x in args]
        k = {n: self.to_native(x) for n, x in kwargs.items()}
        try:
            out = f(*a, **k)
        except Exception as e:  # noqa: BLE001 - the real code's exceptional outcome
            return Raised(e)
        return self.from_native(out)
