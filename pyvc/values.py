"""Symbolic values: scalar terms `T` and lazily defined arrays `SymArray`.

Structure (ranks, axis tuples, names) is concrete Python; contents and sizes are z3 terms.
Floats are reals, ints are mathematical integers (DESIGN 2.5).
"""

from __future__ import annotations

import itertools
from fractions import Fraction

import z3

from .ctx import Undecided, cur, has_ctx

# ----------------------------------------------------------------------------- infinities
NINF = z3.Real("-inf")
PINF = z3.Real("+inf")
NAN = z3.Real("nan")
INT_MIN = z3.IntVal(-(2**31))


class Inf:
    """`jnp.inf` / `-jnp.inf` as a first-class constant (lifted to the z3 constants above)."""

    def __init__(self, sign=1):
        self.sign = sign

    def __neg__(self):
        return Inf(-self.sign)

    def __repr__(self):
        return "inf" if self.sign > 0 else "-inf"


class NaN:
    def __repr__(self):
        return "nan"


def infinity_axioms():
    return [NINF < PINF]


# ----------------------------------------------------------------------------- lifting
def is_sym(x):
    return isinstance(x, (T, SymArray))


def lift(x):
    """Python / symbolic scalar -> z3 expression."""
    if isinstance(x, T):
        return x.e
    if isinstance(x, z3.ExprRef):
        return x
    if isinstance(x, bool):
        return z3.BoolVal(x)
    if isinstance(x, int):
        return z3.IntVal(x)
    if isinstance(x, Fraction):
        return z3.RealVal(x)
    if isinstance(x, float):
        if x != x:
            return NAN
        if x == float("inf"):
            return PINF
        if x == float("-inf"):
            return NINF
        return z3.RealVal(Fraction(repr(x)))
    if isinstance(x, Inf):
        return PINF if x.sign > 0 else NINF
    if isinstance(x, NaN):
        return NAN
    try:
        import numpy as np

        if isinstance(x, np.generic):
            return lift(x.item())
    except ImportError:  # pragma: no cover
        pass
    raise Undecided(f"cannot lift {type(x).__name__} to a term")


def _to_real(e):
    if z3.is_int(e):
        return z3.ToReal(e)
    if z3.is_bool(e):
        return z3.If(e, z3.RealVal(1), z3.RealVal(0))
    return e


def _to_int(e):
    if z3.is_bool(e):
        return z3.If(e, z3.IntVal(1), z3.IntVal(0))
    return e


def _num_pair(a, b):
    a, b = lift(a), lift(b)
    if z3.is_bool(a) and not z3.is_bool(b):
        a = _to_int(a)
    if z3.is_bool(b) and not z3.is_bool(a):
        b = _to_int(b)
    if z3.is_bool(a) and z3.is_bool(b):
        a, b = _to_int(a), _to_int(b)
    if z3.is_real(a) and not z3.is_real(b):
        b = _to_real(b)
    if z3.is_real(b) and not z3.is_real(a):
        a = _to_real(a)
    return a, b


def conc(e):
    """Concrete Python value of a z3 numeral/bool after simplification, else None."""
    e = z3.simplify(e)
    if z3.is_int_value(e):
        return e.as_long()
    if z3.is_true(e):
        return True
    if z3.is_false(e):
        return False
    if z3.is_rational_value(e):
        return Fraction(e.numerator_as_long(), e.denominator_as_long())
    return None


def sort_of(dtype):
    if dtype == "key":
        from .stubs.prng import Key

        return Key
    return {"float": z3.RealSort(), "int": z3.IntSort(), "bool": z3.BoolSort()}[dtype]


def dtype_of(e):
    if z3.is_bool(e):
        return "bool"
    if z3.is_int(e):
        return "int"
    if z3.is_real(e):
        return "float"
    return "key"


def join_dtype(*ds):
    if "float" in ds:
        return "float"
    if "int" in ds:
        return "int"
    return "bool"


# ----------------------------------------------------------------------------- scalar terms
class T:
    """A symbolic scalar (z3 Int / Real / Bool) behaving like a Python/JAX scalar."""

    __slots__ = ("e", "weak")
    __array_priority__ = 1000

    def __init__(self, e, weak=False):
        self.e = e

    # -- helpers
    @property
    def dtype(self):
        return DType(dtype_of(self.e))

    @property
    def shape(self):
        return ()

    @property
    def ndim(self):
        return 0

    def astype(self, dt):
        return cast_scalar(self, dtype_name(dt))

    def reshape(self, *shape):
        return SymArray((), lambda idx: self.e, dtype_of(self.e)).reshape(*shape)

    def transpose(self, *axes):
        return self

    @property
    def T(self):
        return self

    def is_bool(self):
        return z3.is_bool(self.e)

    def __repr__(self):
        return f"T({z3.simplify(self.e)})"

    def __hash__(self):
        return self.e.hash()

    def __bool__(self):
        e = self.e
        if not z3.is_bool(e):
            e = e != 0
        return cur().branch(e)

    def __index__(self):
        c = conc(self.e)
        if isinstance(c, int):
            return c
        raise Undecided(f"symbolic integer {self} used where Python needs a concrete int")

    __int__ = __index__

    def __float__(self):
        c = conc(self.e)
        if c is not None:
            return float(c)
        raise Undecided(f"symbolic value {self} used where Python needs a concrete float")

    # -- arithmetic
    def _bin(self, other, op, swap=False):
        if isinstance(other, SymArray):
            return NotImplemented
        if other is None:
            return NotImplemented
        a, b = _num_pair(self, other)
        if swap:
            a, b = b, a
        return T(op(a, b))

    def __add__(self, o):
        return self._bin(o, lambda a, b: a + b)

    def __radd__(self, o):
        return self._bin(o, lambda a, b: a + b, True)

    def __sub__(self, o):
        return self._bin(o, lambda a, b: a - b)

    def __rsub__(self, o):
        return self._bin(o, lambda a, b: a - b, True)

    def __mul__(self, o):
        return self._bin(o, lambda a, b: a * b)

    def __rmul__(self, o):
        return self._bin(o, lambda a, b: a * b, True)

    def __truediv__(self, o):
        return self._bin(o, scalar_div)

    def __rtruediv__(self, o):
        return self._bin(o, scalar_div, True)

    def __floordiv__(self, o):
        return self._bin(o, floordiv)

    def __rfloordiv__(self, o):
        return self._bin(o, floordiv, True)

    def __mod__(self, o):
        return self._bin(o, lambda a, b: a % b)

    def __neg__(self):
        return T(-_to_int(self.e) if z3.is_bool(self.e) else -self.e)

    def __pos__(self):
        return self

    def __pow__(self, o):
        c = o if isinstance(o, int) else None
        if c is not None and c >= 0:
            r = z3.RealVal(1) if z3.is_real(self.e) else z3.IntVal(1)
            for _ in range(c):
                r = r * self.e
            return T(r)
        raise Undecided("symbolic exponent")

    # -- comparisons
    def _cmp(self, o, op):
        if isinstance(o, SymArray):
            return NotImplemented
        if o is None or isinstance(o, str):
            return NotImplemented
        if isinstance(o, float) and (o != o or o in (float("inf"), float("-inf"))):
            # symbolic scalars are finite: comparisons with nan are False, with +-inf decided
            if o != o:
                return False
            return bool(op(z3.RealVal(0), z3.RealVal(1 if o > 0 else -1)) is not None and z3.is_true(z3.simplify(op(z3.RealVal(0), z3.RealVal(1 if o > 0 else -1)))))
        a, b = _num_pair(self, o)
        return T(op(a, b))

    def __lt__(self, o):
        return self._cmp(o, lambda a, b: a < b)

    def __le__(self, o):
        return self._cmp(o, lambda a, b: a <= b)

    def __gt__(self, o):
        return self._cmp(o, lambda a, b: a > b)

    def __ge__(self, o):
        return self._cmp(o, lambda a, b: a >= b)

    def __eq__(self, o):
        if isinstance(o, SymArray):
            return NotImplemented
        if o is None or isinstance(o, (str, tuple, list, dict)):
            return False
        if isinstance(o, float) and (o != o or o in (float("inf"), float("-inf"))):
            return False
        try:
            a, b = lift(self), lift(o)
        except Undecided:
            return False
        if z3.is_bool(a) and z3.is_bool(b):
            return T(a == b)
        a, b = _num_pair(a, b)
        return T(a == b)

    def __ne__(self, o):
        r = self.__eq__(o)
        if r is NotImplemented:
            return r
        if r is False:
            return True
        return T(z3.Not(r.e))

    # -- logic (numpy style on booleans)
    def __and__(self, o):
        if isinstance(o, SymArray):
            return NotImplemented
        return T(z3.And(as_bool(self), as_bool(o)))

    __rand__ = __and__

    def __or__(self, o):
        if isinstance(o, SymArray):
            return NotImplemented
        return T(z3.Or(as_bool(self), as_bool(o)))

    __ror__ = __or__

    def __invert__(self):
        return T(z3.Not(as_bool(self)))

    # -- reductions on scalars (0-d arrays)
    def max(self, axis=None, initial=None, where=None, keepdims=False):
        return SymArray((), lambda idx: self.e, dtype_of(self.e)).max(
            axis=axis, initial=initial, where=where, keepdims=keepdims
        )

    def sum(self, axis=None):
        return self

    def any(self, axis=None):
        return self

    def item(self):
        return self


def as_bool(x):
    e = lift(x)
    if z3.is_bool(e):
        return e
    return e != 0


def scalar_div(a, b):
    a, b = _to_real(a), _to_real(b)
    return a / b


def floordiv(a, b):
    if z3.is_int(a) and z3.is_int(b):
        if has_ctx():
            pr = cur().memo.get("products", {})
            fac = pr.get(a.hash())
            if fac is not None:
                for i, f in enumerate(fac):
                    if z3.eq(f, b) or (conc(f) is not None and conc(f) == conc(b)):
                        rest = [g for j, g in enumerate(fac) if j != i]
                        if len(rest) == 1:
                            return rest[0]
        return a / b
    raise Undecided("floor division on reals")


def cast_scalar(x, dt):
    e = lift(x)
    have = dtype_of(e)
    if dt == have:
        return T(e) if not isinstance(x, T) else x
    if dt == "float":
        return T(_to_real(e))
    if dt == "int":
        if have == "bool":
            return T(_to_int(e))
        return T(real_to_int(e))
    if dt == "bool":
        return T(as_bool(e))
    raise Undecided(f"cast to {dt}")


def real_to_int(e):
    """ToInt pushed through ite and cancelled against ToReal (floor/clip results are integral)"""
    if z3.is_int(e):
        return e
    if z3.is_app_of(e, z3.Z3_OP_TO_REAL):
        return e.arg(0)
    if z3.is_app_of(e, z3.Z3_OP_ITE):
        return z3.If(e.arg(0), real_to_int(e.arg(1)), real_to_int(e.arg(2)))
    if z3.is_rational_value(e) and e.denominator_as_long() == 1:
        return z3.IntVal(e.numerator_as_long())
    return z3.ToInt(e)


class DType:
    def __init__(self, name):
        self.name = name

    def __repr__(self):
        return f"dtype({self.name})"

    def __eq__(self, o):
        return isinstance(o, DType) and o.name == self.name or o == self.name

    def __hash__(self):
        return hash(self.name)


def dtype_name(dt):
    if isinstance(dt, DType):
        return dt.name
    if isinstance(dt, str):
        return dt
    n = getattr(dt, "__name__", None) or getattr(dt, "name", None) or str(dt)
    if "int" in n:
        return "int"
    if "bool" in n:
        return "bool"
    if "float" in n:
        return "float"
    raise Undecided(f"unknown dtype {dt!r}")


# ----------------------------------------------------------------------------- dims
def zdim(d):
    """dimension -> z3 Int expression"""
    if isinstance(d, int) and not isinstance(d, bool):
        return z3.IntVal(d)
    if isinstance(d, bool):
        return z3.IntVal(int(d))
    if isinstance(d, T):
        d = d.e
    if isinstance(d, z3.ExprRef):
        if z3.is_bool(d):
            return z3.If(d, z3.IntVal(1), z3.IntVal(0))
        if z3.is_int(d):
            return d
    raise Undecided(f"bad dimension {d!r}")


def pydim(d):
    """dimension -> Python int when concrete, else T"""
    if isinstance(d, int):
        return d
    e = zdim(d)
    c = conc(e)
    if isinstance(c, int) and not isinstance(c, bool):
        return c
    return T(e)


def same_dim(a, b):
    a, b = zdim(a), zdim(b)
    if z3.eq(a, b):
        return True
    ca, cb = conc(a), conc(b)
    if ca is not None and cb is not None:
        return ca == cb
    return None  # unknown


def is_one(d):
    c = conc(zdim(d))
    return c == 1


def inrange(shape, idx):
    return z3.And(*[z3.And(i >= 0, i < zdim(n)) for i, n in zip(idx, shape)]) if shape else z3.BoolVal(True)


def lex_lt(p, q):
    """strict lexicographic order of two equally long index tuples"""
    if not p:
        return z3.BoolVal(False)
    out = z3.BoolVal(False)
    for a, b in reversed(list(zip(p, q))):
        out = z3.Or(a < b, z3.And(a == b, out))
    return out


# ----------------------------------------------------------------------------- row-major bijection
class RowMajor:
    """Abstract row-major bijection between index tuples of `dims` and [0, N).

    N is an abstract product (no multiplication of symbolic sizes appears anywhere).
    For a single axis the bijection is the identity and N is the axis length.
    """

    def __init__(self, dims):
        ctx = cur()
        self.dims = [zdim(d) for d in dims]
        k = len(self.dims)
        self.k = k
        concrete = [conc(d) for d in self.dims]
        if k == 0:
            self.N = z3.IntVal(1)
            return
        if k == 1:
            self.N = self.dims[0]
            return
        if all(c is not None for c in concrete):
            # all extents concrete: the bijection is plain integer arithmetic with constant strides
            n_tot = 1
            for c in concrete:
                n_tot *= c
            strides = []
            acc = 1
            for c in reversed(concrete):
                strides.insert(0, acc)
                acc *= c
            self.k = -2
            self.N = z3.IntVal(n_tot)
            self._ravel2 = lambda idx: z3.Sum([i * z3.IntVal(st) for i, st in zip(idx, strides)])
            self._unravel2 = lambda p: [(p / z3.IntVal(st)) % z3.IntVal(c) if q > 0 else p / z3.IntVal(st) for q, (st, c) in enumerate(zip(strides, concrete))]
            ctx.memo.setdefault("products", {})[self.N.hash()] = list(self.dims)
            return
        if k == 2 and concrete[0] is not None and concrete[0] <= 8 and concrete[1] is None:
            # (T, n) with a small concrete T: the bijection is linear arithmetic, p = t * n + i
            Tn, n = concrete[0], self.dims[1]
            self.k = -2
            self.N = z3.simplify(z3.IntVal(Tn) * n)

            def ravel2(idx):
                t, i = idx
                ct = conc(t)
                if ct is not None:
                    return z3.IntVal(ct) * n + i
                out = z3.IntVal(Tn - 1) * n + i
                for c in range(Tn - 2, -1, -1):
                    out = z3.If(t == c, z3.IntVal(c) * n + i, out)
                return out

            def unravel2(p):
                t = z3.IntVal(Tn - 1)
                for c in range(Tn - 2, -1, -1):
                    t = z3.If(p < z3.IntVal(c + 1) * n, z3.IntVal(c), t)
                i = p - z3.IntVal(Tn - 1) * n
                for c in range(Tn - 2, -1, -1):
                    i = z3.If(p < z3.IntVal(c + 1) * n, p - z3.IntVal(c) * n, i)
                return [t, i]

            self._ravel2, self._unravel2 = ravel2, unravel2
            return
        if k == 2 and concrete[0] is None and concrete[1] is not None and 1 <= concrete[1] <= 64:
            # (n, C) with a small concrete C: p = i * C + c, (i, c) = (p div C, p mod C): linear arithmetic
            C, n = concrete[1], self.dims[0]
            self.k = -2
            self.N = z3.simplify(n * z3.IntVal(C))
            self._ravel2 = lambda idx: idx[0] * z3.IntVal(C) + idx[1]
            self._unravel2 = lambda p: [p / z3.IntVal(C), p % z3.IntVal(C)]
            ctx.memo.setdefault("products", {})[self.N.hash()] = list(self.dims)
            return
        name = ctx.fresh("rm")
        # if all but one dims are concrete 1, identity as well -- keep generic otherwise
        if all(c is not None for c in concrete):
            n = 1
            for c in concrete:
                n *= c
            self.N = z3.IntVal(n)
        else:
            self.N = z3.Int(name + ".N")
        self.ravel_f = z3.Function(name + ".ravel", *([z3.IntSort()] * k), z3.IntSort())
        self.unravel_f = [
            z3.Function(f"{name}.unravel{q}", z3.IntSort(), z3.IntSort()) for q in range(k)
        ]
        ctx.memo.setdefault("products", {})[self.N.hash()] = list(self.dims)
        I = [z3.Int(f"{name}.i{q}") for q in range(k)]
        J = [z3.Int(f"{name}.j{q}") for q in range(k)]
        p = z3.Int(name + ".p")
        rng = lambda X: inrange(self.dims, X)
        rI = self.ravel_f(*I)
        ax = []
        from .stubs.jnp_impl import _forall

        ax.append(
            _forall(
                I,
                z3.Implies(
                    rng(I),
                    z3.And(
                        rI >= 0,
                        rI < self.N,
                        *[self.unravel_f[q](rI) == I[q] for q in range(k)],
                    ),
                ),
                patterns=[rI],
                dims=self.dims,
            )
        )
        up = [self.unravel_f[q](p) for q in range(k)]
        ax.append(
            _forall(
                [p],
                z3.Implies(
                    z3.And(p >= 0, p < self.N),
                    z3.And(rng(up), self.ravel_f(*up) == p),
                ),
                patterns=[z3.MultiPattern(*up)] if k > 1 else [up[0]],
                dims=[self.N],
            )
        )
        ax.append(
            _forall(
                I + J,
                z3.Implies(
                    z3.And(rng(I), rng(J)),
                    lex_lt(I, J) == (self.ravel_f(*I) < self.ravel_f(*J)),
                ),
                patterns=[z3.MultiPattern(self.ravel_f(*I), self.ravel_f(*J))],
                dims=self.dims + self.dims,
            )
        )
        ax.append(self.N >= 0)
        ax.append(z3.Implies(z3.And(*[d >= 1 for d in self.dims]), self.N >= 1))
        ax.append(z3.Implies(z3.Or(*[d == 0 for d in self.dims]), self.N == 0))
        # the first index tuple is position 0
        zero = [z3.IntVal(0)] * k
        ax.append(z3.Implies(self.N >= 1, self.ravel_f(*zero) == 0))
        for a in ax:
            ctx.assume(a, tag="rowmajor")
        ctx.trusted.add("row-major bijection (abstract product)")

    def ravel(self, idx):
        idx = [lift(i) for i in idx]
        if self.k == -2:
            return self._ravel2(idx)
        if self.k == 0:
            return z3.IntVal(0)
        if self.k == 1:
            return idx[0]
        return self.ravel_f(*idx)

    def unravel(self, p):
        p = lift(p)
        if self.k == -2:
            return self._unravel2(p)
        if self.k == 0:
            return []
        if self.k == 1:
            return [p]
        return [f(p) for f in self.unravel_f]


def rowmajor(dims):
    """One bijection per tuple of dimension terms and path (shared by reshape, repeat, tile ...)."""
    ctx = cur()
    key = ("rm",) + tuple(zdim(d).hash() for d in dims) + tuple(str(zdim(d)) for d in dims)
    rm = ctx.memo.get(key)
    if rm is None:
        rm = RowMajor(dims)
        ctx.memo[key] = rm
    return rm


# ----------------------------------------------------------------------------- arrays
class SymArray:
    """n-d array with concrete rank, symbolic sizes and a content function idx -> z3 term."""

    __array_priority__ = 1000

    def __init__(self, shape, get, dtype, labels=None, mutable=False):
        self._shape = tuple(zdim(d) for d in shape)
        self._get = get
        self._dtype = dtype
        self.labels = labels
        self.mutable = mutable
        self._cache = {}

    # ---- basics
    @property
    def shape(self):
        return tuple(pydim(d) for d in self._shape)

    @property
    def zshape(self):
        return self._shape

    @property
    def ndim(self):
        return len(self._shape)

    @property
    def dtype(self):
        return DType(self._dtype)

    @property
    def size(self):
        return pydim(rowmajor(self._shape).N)

    def __len__(self):
        if not self._shape:
            raise TypeError("len() of unsized object")
        c = conc(self._shape[0])
        if isinstance(c, int):
            return c
        raise Undecided("native len() of an array with symbolic length (use the executor's len)")

    def sym_len(self):
        if not self._shape:
            raise TypeError("len() of unsized object")
        return pydim(self._shape[0])

    def get(self, idx):
        idx = tuple(lift(i) for i in idx)
        if len(idx) != len(self._shape):
            raise Undecided(f"internal: rank mismatch in get ({len(idx)} vs {len(self._shape)})")
        key = tuple(i.hash() for i in idx)
        hit = self._cache.get(key)
        if hit is not None and all(z3.eq(a, b) for a, b in zip(hit[0], idx)):
            return hit[1]
        v = self._get(idx)
        self._cache[key] = (idx, v)
        return v

    def __repr__(self):
        return f"SymArray(shape={self.shape}, dtype={self._dtype})"

    def __bool__(self):
        if self.ndim == 0:
            return bool(T(self.get(())))
        raise ValueError("The truth value of an array with more than one element is ambiguous.")

    def __iter__(self):
        n = len(self)
        for i in range(n):
            yield self[i]

    def item(self):
        if self.ndim == 0:
            return T(self.get(()))
        raise Undecided("item() on a non-scalar array")

    def __hash__(self):
        return id(self)

    def inrange(self, idx):
        return inrange(self._shape, idx)

    def copy(self):
        return SymArray(self._shape, self._get, self._dtype, self.labels, self.mutable)

    # ---- casts
    def astype(self, dt):
        dt = dtype_name(dt)
        if dt == self._dtype:
            return self
        return SymArray(self._shape, lambda idx: cast_scalar(self.get(idx), dt).e, dt, self.labels)

    # ---- layout
    @property
    def T(self):
        return self.transpose(tuple(reversed(range(self.ndim))))

    def transpose(self, *axes):
        if len(axes) == 1 and isinstance(axes[0], (tuple, list)):
            axes = tuple(axes[0])
        if not axes:
            axes = tuple(reversed(range(self.ndim)))
        axes = tuple(int(a) % self.ndim if self.ndim else int(a) for a in axes)
        if sorted(axes) != list(range(self.ndim)):
            raise ValueError("axes don't match array")
        shape = tuple(self._shape[a] for a in axes)
        inv = [0] * self.ndim
        for newpos, old in enumerate(axes):
            inv[old] = newpos
        labels = [self.labels[a] for a in axes] if self.labels else None
        return SymArray(shape, lambda idx: self.get(tuple(idx[inv[o]] for o in range(self.ndim))), self._dtype, labels)

    def reshape(self, *shape):
        if len(shape) == 1 and isinstance(shape[0], (tuple, list)):
            shape = tuple(shape[0])
        return reshape(self, shape)

    def flatten(self):
        return reshape(self, (-1,))

    ravel = flatten

    # ---- elementwise
    def _ew(self, o, op, dt=None, swap=False):
        if o is None or isinstance(o, (str, dict)):
            return NotImplemented
        o = asarray(o)
        return elementwise((o, self) if swap else (self, o), op, dt)

    def __add__(self, o):
        return self._ew(o, lambda a, b: _arith(a, b, lambda x, y: x + y))

    def __radd__(self, o):
        return self._ew(o, lambda a, b: _arith(a, b, lambda x, y: x + y), swap=True)

    def __sub__(self, o):
        return self._ew(o, lambda a, b: _arith(a, b, lambda x, y: x - y))

    def __rsub__(self, o):
        return self._ew(o, lambda a, b: _arith(a, b, lambda x, y: x - y), swap=True)

    def __mul__(self, o):
        return self._ew(o, lambda a, b: _arith(a, b, lambda x, y: x * y))

    def __rmul__(self, o):
        return self._ew(o, lambda a, b: _arith(a, b, lambda x, y: x * y), swap=True)

    def __truediv__(self, o):
        return self._ew(o, lambda a, b: scalar_div(*_num_pair(a, b)), "float")

    def __rtruediv__(self, o):
        return self._ew(o, lambda a, b: scalar_div(*_num_pair(a, b)), "float", swap=True)

    def _int_divisor(self, o, what):
        """integer floor division / remainder of an integer array by a positive scalar (Python's and z3's
        integer division agree for positive divisors; anything else is left undecided)"""
        if self._dtype not in ("int", "bool"):
            raise Undecided(f"{what} of a {self._dtype} array")
        if isinstance(o, SymArray):
            raise Undecided(f"{what} by an array")
        d = lift(o)
        if not z3.is_int(d):
            raise Undecided(f"{what} by a non-integer")
        c = conc(d)
        if c is not None:
            if c <= 0:
                raise Undecided(f"{what} by a non-positive constant")
        else:
            cur().prove_then_assume(f"{what}-by-a-positive-number", d > 0, "safety")
        return d

    def __floordiv__(self, o):
        d = self._int_divisor(o, "floor-division")
        return elementwise((self,), lambda a: (_to_int(a) if z3.is_bool(a) else a) / d, "int")

    def __mod__(self, o):
        d = self._int_divisor(o, "remainder")
        return elementwise((self,), lambda a: (_to_int(a) if z3.is_bool(a) else a) % d, "int")

    def __neg__(self):
        return elementwise((self,), lambda a: -(_to_int(a) if z3.is_bool(a) else a))

    def __lt__(self, o):
        return self._ew(o, lambda a, b: _cmp(a, b, lambda x, y: x < y), "bool")

    def __le__(self, o):
        return self._ew(o, lambda a, b: _cmp(a, b, lambda x, y: x <= y), "bool")

    def __gt__(self, o):
        return self._ew(o, lambda a, b: _cmp(a, b, lambda x, y: x > y), "bool")

    def __ge__(self, o):
        return self._ew(o, lambda a, b: _cmp(a, b, lambda x, y: x >= y), "bool")

    def __eq__(self, o):
        if o is None or isinstance(o, (str, dict)):
            return False
        return self._ew(o, lambda a, b: _cmp(a, b, lambda x, y: x == y), "bool")

    def __ne__(self, o):
        if o is None or isinstance(o, (str, dict)):
            return True
        return self._ew(o, lambda a, b: _cmp(a, b, lambda x, y: x != y), "bool")

    def __and__(self, o):
        return self._ew(o, lambda a, b: z3.And(as_bool(a), as_bool(b)), "bool")

    __rand__ = __and__

    def __or__(self, o):
        return self._ew(o, lambda a, b: z3.Or(as_bool(a), as_bool(b)), "bool")

    __ror__ = __or__

    def __invert__(self):
        return elementwise((self,), lambda a: z3.Not(as_bool(a)), "bool")

    # ---- reductions
    def max(self, axis=None, initial=None, where=None, keepdims=False):
        from .stubs import jnp_impl

        return jnp_impl.reduce_max(self, axis=axis, initial=initial, where=where, keepdims=keepdims)

    def sum(self, axis=None):
        from .stubs import jnp_impl

        return jnp_impl.reduce_sum(self, axis=axis)

    def any(self, axis=None):
        from .stubs import jnp_impl

        return jnp_impl.reduce_any(self, axis=axis)

    def cumsum(self):
        from .stubs import jnp_impl

        return jnp_impl.cumsum_flat(self)

    # ---- indexing
    def __getitem__(self, key):
        from .indexing import getitem

        return getitem(self, key)

    def __setitem__(self, key, value):
        from .indexing import setitem

        if not self.mutable:
            raise TypeError("JAX arrays are immutable")
        setitem(self, key, value)


def _arith(a, b, op):
    a, b = _num_pair(a, b)
    return op(a, b)


def _cmp(a, b, op):
    if z3.is_bool(a) and z3.is_bool(b):
        r = op(z3.IntVal(0), z3.IntVal(1))  # probe: is this (in)equality or an order?
        r0 = op(z3.IntVal(0), z3.IntVal(0))
        is_eq = z3.is_true(z3.simplify(r0)) and z3.is_false(z3.simplify(r)) and z3.is_false(z3.simplify(op(z3.IntVal(1), z3.IntVal(0))))
        is_ne = z3.is_false(z3.simplify(r0)) and z3.is_true(z3.simplify(r)) and z3.is_true(z3.simplify(op(z3.IntVal(1), z3.IntVal(0))))
        if is_eq:
            return a == b
        if is_ne:
            return z3.Xor(a, b)
        return op(_to_int(a), _to_int(b))
    a, b = _num_pair(a, b)
    return op(a, b)


def asarray(x, dtype=None):
    if isinstance(x, SymArray):
        return x if dtype is None else x.astype(dtype)
    if isinstance(x, (list, tuple)):
        return stack_list(x, dtype)
    try:
        import numpy as np

        if isinstance(x, np.ndarray):
            return from_numpy(x)
    except ImportError:  # pragma: no cover
        pass
    e = lift(x)
    dt = dtype_of(e)
    arr = SymArray((), lambda idx: e, dt)
    return arr if dtype is None else arr.astype(dtype)


def unwrap0(a):
    """0-d arrays are handed around as scalars T."""
    if isinstance(a, SymArray) and a.ndim == 0:
        return T(a.get(()))
    return a


def from_numpy(x):
    import numpy as np

    kind = {"b": "bool", "i": "int", "u": "int", "f": "float"}.get(x.dtype.kind)
    if kind is None:
        raise Undecided(f"numpy array of dtype {x.dtype}")
    shape = x.shape
    if x.size > 64:
        raise Undecided("large concrete numpy array (numeric inputs of a proof must be symbolic)")
    flat = [lift(v.item()) for v in x.reshape(-1)]

    def get(idx):
        # nested ite over the concrete positions
        out = flat[-1] if flat else (z3.RealVal(0) if kind == "float" else z3.IntVal(0))
        strides = []
        s = 1
        for n in reversed(shape):
            strides.insert(0, s)
            s *= n
        pos = sum((i * st for i, st in zip(idx, strides)), z3.IntVal(0))
        for p in range(len(flat) - 2, -1, -1):
            out = z3.If(pos == p, flat[p], out)
        return out

    return SymArray(shape, get, kind)


def stack_list(xs, dtype=None):
    """jnp.array([...]) of scalars/arrays of equal shape -> new leading axis."""
    items = [asarray(x) for x in xs]
    n = len(items)
    if n == 0:
        return SymArray((0,), lambda idx: z3.RealVal(0), dtype_name(dtype) if dtype else "float")
    dt = dtype_name(dtype) if dtype else join_dtype(*[i._dtype for i in items])
    items = [i.astype(dt) for i in items]
    inner = items[0]._shape
    for it in items[1:]:
        if len(it._shape) != len(inner):
            raise Undecided("ragged array literal")

    def get(idx):
        i0, rest = idx[0], tuple(idx[1:])
        out = items[-1].get(rest)
        for p in range(n - 2, -1, -1):
            out = z3.If(i0 == p, items[p].get(rest), out)
        return out

    return SymArray((n, *inner), get, dt)


def broadcast_shapes(shapes):
    r = max((len(s) for s in shapes), default=0)
    out = []
    for pos in range(r):
        dims = []
        for s in shapes:
            k = pos - (r - len(s))
            if k >= 0:
                dims.append(s[k])
        chosen = None
        for d in dims:
            if is_one(d):
                continue
            if chosen is None:
                chosen = d
            else:
                sd = same_dim(chosen, d)
                if sd is False:
                    raise ValueError(f"shapes cannot be broadcast: {shapes}")
                if sd is None:
                    cur().prove_then_assume("broadcast-dims-equal", zdim(chosen) == zdim(d), "safety")
        out.append(chosen if chosen is not None else z3.IntVal(1))
    return tuple(out)


def project(idx, shape, r):
    """index into the broadcast result -> index into an operand of shape `shape`"""
    off = r - len(shape)
    return tuple(z3.IntVal(0) if is_one(shape[k]) else idx[off + k] for k in range(len(shape)))


def elementwise(arrs, op, dt=None):
    arrs = [asarray(a) for a in arrs]
    shape = broadcast_shapes([a._shape for a in arrs])
    r = len(shape)

    def get(idx):
        return op(*[a.get(project(idx, a._shape, r)) for a in arrs])

    if dt is None:
        dt = join_dtype(*[a._dtype for a in arrs])
        if dt == "bool":
            dt = "int"  # arithmetic on booleans yields ints
    out = SymArray(shape, get, dt)
    return unwrap0(out)


def reshape(a, shape):
    """Reshape through the row-major bijection; axes that are carried over unchanged keep
    their index (so `a.reshape(*a.shape[:-n], -1)` only ravels the last n axes)."""
    shape = list(shape)
    old = list(a._shape)
    # resolve -1
    new = [None if (isinstance(s, int) and s == -1) else zdim(s) for s in shape]
    # common prefix / suffix of identical dims are carried over
    pre = 0
    while pre < len(old) and pre < len(new) and new[pre] is not None and same_dim(old[pre], new[pre]) is True:
        pre += 1
    suf = 0
    while (
        suf < len(old) - pre
        and suf < len(new) - pre
        and new[len(new) - 1 - suf] is not None
        and same_dim(old[len(old) - 1 - suf], new[len(new) - 1 - suf]) is True
    ):
        suf += 1
    old_mid = old[pre : len(old) - suf]
    new_mid = new[pre : len(new) - suf]
    if not old_mid and not new_mid:
        return a
    rm_old = rowmajor(old_mid)
    if new_mid.count(None) > 1:
        raise ValueError("can only specify one unknown dimension")
    if None in new_mid:
        # jnp infers the -1 extent by dividing by the product of the other extents of the new shape
        for d in old[:pre] + [x for x in new_mid if x is not None] + old[len(old) - suf :]:
            if conc(d) is None or conc(d) == 0:
                cur().prove_then_assume("reshape-infer-nonzero-extents", d >= 1, "safety")
        others = [d for d in new_mid if d is not None]
        if all(is_one(d) for d in others):
            fill = rm_old.N
        else:
            raise Undecided("reshape with -1 next to non-unit new dims")
        new_mid = [fill if d is None else d for d in new_mid]
    # drop unit dims on the new side for the bijection
    eff_new = [d for d in new_mid if not is_one(d)]
    eff_old = [d for d in old_mid if not is_one(d)]
    full_shape = old[:pre] + new_mid + old[len(old) - suf :]
    same = len(eff_new) == len(eff_old) and all(same_dim(x, y) is True for x, y in zip(eff_new, eff_old))
    if not same:
        if len(eff_new) == 1 and same_dim(eff_new[0], rm_old.N) is True:
            pass  # plain ravel of the middle block
        elif len(eff_old) == 1:
            # un-ravel one axis into several: needs N(new) == old length
            rm_new = rowmajor(eff_new)
            cur().prove_then_assume("reshape-size", rm_new.N == eff_old[0], "safety")
        else:
            rm_new = rowmajor(eff_new)
            cur().prove_then_assume("reshape-size", rm_new.N == rm_old.N, "safety")

    npre, nmid = pre, len(new_mid)

    def get(idx):
        head = tuple(idx[:npre])
        mid = tuple(idx[npre : npre + nmid])
        tail = tuple(idx[npre + nmid :])
        mid_eff = [i for i, d in zip(mid, new_mid) if not is_one(d)]
        if same:
            old_eff_idx = mid_eff
        else:
            if len(eff_new) <= 1:
                p = mid_eff[0] if mid_eff else z3.IntVal(0)
            else:
                p = rowmajor(eff_new).ravel(mid_eff)
            old_eff_idx = rowmajor(eff_old).unravel(p) if len(eff_old) > 1 else ([p] if eff_old else [])
        it = iter(old_eff_idx)
        old_mid_idx = [z3.IntVal(0) if is_one(d) else next(it) for d in old_mid]
        return a.get(head + tuple(old_mid_idx) + tail)

    return SymArray(tuple(full_shape), get, a._dtype)


def fresh_array(name, shape, dtype, labels=None):
    """An unconstrained input array: an uninterpreted function of its indices."""
    ctx = cur()
    shape = tuple(zdim(d) for d in shape)
    nm = ctx.fresh(name)
    if len(shape) == 0:
        c = z3.Const(nm, sort_of(dtype))
        return SymArray((), lambda idx: c, dtype, labels)
    f = z3.Function(nm, *([z3.IntSort()] * len(shape)), sort_of(dtype))
    return SymArray(shape, lambda idx: f(*idx), dtype, labels)


def fresh_int(name, ge=None):
    ctx = cur()
    v = z3.Int(ctx.fresh(name))
    if ge is not None:
        ctx.assume(v >= ge, tag="domain")
    return T(v)


def fresh_real(name):
    return T(z3.Real(cur().fresh(name)))


def fresh_bool(name):
    return T(z3.Bool(cur().fresh(name)))


def all_indices(shape):
    """concrete enumeration (for concrete shapes only)"""
    return itertools.product(*[range(conc(zdim(d))) for d in shape])
