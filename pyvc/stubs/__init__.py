"""Stub namespaces standing in for `jax`, `jax.numpy` and `numpy` inside shadow modules."""

from __future__ import annotations

import functools
import inspect

import z3

from ..ctx import Undecided, cur
from ..values import DType, Inf, NaN, SymArray, T, asarray, cast_scalar, conc, dtype_name, lift, pydim, unwrap0, zdim
from . import jnp_impl as J


class _NS:
    """namespace whose unknown attributes are *undecided*, never guessed"""

    def __init__(self, name, **kw):
        self.__dict__["_name"] = name
        self.__dict__.update(kw)

    def __getattr__(self, item):
        raise Undecided(f"library attribute {self._name}.{item} has no contract stub")

    def __repr__(self):
        return f"<stub {self._name}>"


class _IntegerKind:
    name = "integer"


class _FloatKind:
    name = "floating"


def issubdtype(dt, kind):
    n = dtype_name(dt)
    if kind is _IntegerKind or getattr(kind, "name", None) == "integer":
        return n == "int"
    if kind is _FloatKind:
        return n == "float"
    return n == dtype_name(kind)


class _FInfo:
    """jnp.finfo of the 64-bit float type (machine constants as exact rationals)"""

    eps = 2.0**-52
    tiny = 2.0**-1022
    max = (2.0 - 2.0**-52) * 2.0**1023
    min = -max
    bits = 64

    def __init__(self, dtype=None):
        self.dtype = dtype


def _jit(f=None, **kw):
    if f is None:
        return lambda g: g
    return f


def _np_array(x, dtype=None, copy=True):
    out = J.array(x, dtype=dtype)
    if isinstance(out, SymArray):
        # numpy arrays are mutable; a fresh object so that stores do not alias the source
        ident = getattr(out, "_mask_identity", out)
        out = out.copy()
        out.mutable = True
        out._mask_identity = ident
    return out


def _np_full(shape, fill_value, dtype=None):
    out = J.full(shape, fill_value, dtype)
    out.mutable = True
    return out


def _np_arange(*a, **k):
    out = J.arange(*a, **k)
    out.mutable = True
    return out


def stub_modules():
    from . import jax_impl as X
    from . import counting as C

    jnp = _NS(
        "jax.numpy",
        ndarray=SymArray,
        inf=Inf(1),
        nan=NaN(),
        e=X.EULER,
        int32=DType("int"),
        int64=DType("int"),
        float32=DType("float"),
        float64=DType("float"),
        bool_=DType("bool"),
        integer=_IntegerKind,
        floating=_FloatKind,
        issubdtype=issubdtype,
        finfo=_FInfo,
        array=J.array,
        asarray=J.array,
        arange=J.arange,
        full=J.full,
        max=J.reduce_max,
        min=J.reduce_min,
        argmax=J.argmax,
        logical_and=J.logical_and,
        logical_or=J.logical_or,
        logical_not=J.logical_not,
        where=J.where,
        broadcast_to=J.broadcast_to,
        floor=J.floor,
        squeeze=J.squeeze,
        log1p=X.log1p,
        ceil=J.ceil,
        minimum=J.minimum,
        maximum=J.maximum,
        abs=J.absolute,
        absolute=J.absolute,
        clip=J.clip,
        prod=J.prod,
        sum=J.reduce_sum,
        exp=X.exp,
        log=X.log,
        linspace=X.linspace,
        logspace=X.logspace,
        repeat=X.repeat,
        tile=X.tile,
        meshgrid=X.meshgrid,
        stack=X.stack,
        concatenate=X.concatenate,
        unravel_index=X.unravel_index,
        unique=X.unique,
        isfinite=X.isfinite,
    )
    ops = _NS("jax.ops", segment_max=J.segment_max, segment_sum=X.segment_sum)
    lax = _NS("jax.lax", round=X.lax_round)
    special = _NS("jax.scipy.special", logsumexp=X.logsumexp)
    scipy = _NS("jax.scipy", special=special)
    random = _NS("jax.random", PRNGKey=X.PRNGKey, split=X.split, choice=X.choice, key=X.PRNGKey, fold_in=X.fold_in)
    util = _NS("jax.util", safe_zip=X.safe_zip, unzip2=X.unzip2)
    jax = _NS(
        "jax",
        Array=SymArray,
        numpy=jnp,
        ops=ops,
        lax=lax,
        scipy=scipy,
        random=random,
        util=util,
        vmap=X.vmap,
        jit=_jit,
    )
    np = _NS(
        "numpy",
        ndarray=SymArray,
        array=_np_array,
        asarray=_np_array,
        full=_np_full,
        arange=_np_arange,
        count_nonzero=C.count_nonzero,
        repeat=C.np_repeat,
        nan=NaN(),
        inf=Inf(1),
    )
    from .pandas_proxy import proxy as pandas_proxy

    return {
        "pandas": pandas_proxy,
        "jax": jax,
        "jax.numpy": jnp,
        "jax.ops": ops,
        "jax.lax": lax,
        "jax.scipy": scipy,
        "jax.scipy.special": special,
        "jax.random": random,
        "jax.util": util,
        "numpy": np,
    }
