"""Counting contracts for numpy code in lcm.state_space (C17)."""
from ..ctx import Undecided


def count_nonzero(a, axis=None):
    raise Undecided("np.count_nonzero (C17 counting contracts not loaded)")


def np_repeat(x, repeats):
    raise Undecided("np.repeat with array repeats (C17 counting contracts not loaded)")
