"""numpy counting operations used by lcm.state_space.create_indexers_and_segments (C17).

`count_nonzero(a)` is the number K of True entries of the mask selector of `a` (the same abstract
order isomorphism as boolean indexing); `cumsum` of a flattened boolean array is rank + 1 at True
positions; `np.repeat(arange(m), counts)` is given a sound but incomplete contract (sorted, values in
[0, m), only rows with a positive count occur): the clause that needs the exact multiplicities is
checked by a bounded stand-in, not proved (DESIGN 6/C17).
"""

from __future__ import annotations

import z3

from ..ctx import Undecided, cur
from ..indexing import mask_selector
from ..values import SymArray, T, asarray, conc, inrange, pydim, reshape, rowmajor, unwrap0
from .jnp_impl import _axes, _fn, _forall, _merge


def count_nonzero(a, axis=None):
    ctx = cur()
    a = asarray(a)
    if a._dtype != "bool":
        raise Undecided("count_nonzero of a non-boolean array")
    if axis is None:
        ms = mask_selector(a)
        ctx.trusted.add("np.count_nonzero (number of True entries = extent of boolean-mask selection)")
        return pydim(ms.K)
    red = _axes(a, axis)
    batch = tuple(x for x in range(a.ndim) if x not in red)
    bshape = [a.zshape[x] for x in batch]
    rshape = [a.zshape[x] for x in red]
    nm = ctx.fresh("count")
    C = _fn(nm, len(batch), z3.IntSort())
    B = [z3.Int(f"{nm}.b{q}") for q in range(len(batch))]
    R = [z3.Int(f"{nm}.r{q}") for q in range(len(red))]
    N = rowmajor(rshape).N
    full = _merge(batch, red, B, R, a.ndim)
    ax = [
        _forall(B, z3.Implies(inrange(bshape, B), z3.And(C(*B) >= 0, C(*B) <= N)), dims=bshape),
        _forall(B + R, z3.Implies(z3.And(inrange(bshape, B), inrange(rshape, R), a.get(full)), C(*B) >= 1), dims=bshape + rshape),
    ]
    for f in ax:
        ctx.assume(f, tag="count_nonzero")
    ctx.trusted.add("np.count_nonzero(axis) (sound, incomplete: 0 <= count <= extent, >= 1 if some entry is True)")
    out = SymArray(tuple(bshape), lambda idx: C(*idx), "int")
    if tuple(red) == tuple(range(1, a.ndim)):
        out.counts_of = a
    return unwrap0(out)


def cumsum_flat(a):
    """a.cumsum() of a boolean array (flattened, inclusive): rank + 1 at True positions"""
    ctx = cur()
    a = asarray(a)
    if a._dtype != "bool":
        raise Undecided("cumsum of a non-boolean array")
    ms = mask_selector(a)
    rm = rowmajor(a.zshape)
    nm = ctx.fresh("cumsum")
    other = z3.Function(nm + ".at-false", z3.IntSort(), z3.IntSort())
    ctx.trusted.add("cumsum of a boolean array = (number of True entries before) + 1 at True positions")

    def get(idx):
        p = idx[0]
        u = rm.unravel(p)
        return z3.If(a.get(tuple(u)), ms.rank(u) + 1, other(p))

    return SymArray((rm.N,), get, "int")


def np_repeat(x, repeats):
    ctx = cur()
    x, reps = asarray(x), asarray(repeats)
    if x.ndim != 1 or reps.ndim != 1:
        raise Undecided("np.repeat on n-d arrays")
    m = x.zshape[0]
    exact = _repeat_of_row_counts(x, reps)
    if exact is not None:
        return exact
    nm = ctx.fresh("repeat")
    L = z3.Int(nm + ".len")
    src = z3.Function(nm + ".src", z3.IntSort(), z3.IntSort())
    p, q = z3.Int(nm + ".p"), z3.Int(nm + ".q")
    ax = [
        L >= 0,
        _forall([p], z3.Implies(z3.And(p >= 0, p < L), z3.And(src(p) >= 0, src(p) < m, reps.get((src(p),)) >= 1)), patterns=[src(p)]),
        _forall([p, q], z3.Implies(z3.And(0 <= p, p <= q, q < L), src(p) <= src(q)), patterns=[z3.MultiPattern(src(p), src(q))]),
    ]
    for f in ax:
        ctx.assume(f, tag="np.repeat")
    ctx.trusted.add("np.repeat(x, counts) (sound, incomplete: sorted source positions, only rows with a positive count)")
    out = SymArray((L,), lambda idx: x.get((src(idx[0]),)), x._dtype)
    out.mutable = True
    return out


def _repeat_of_row_counts(x, reps):
    """Counting lemma (assumed, DESIGN 4.3): np.repeat(x, count_nonzero(R, axis=all but the first))[p] =
    x[row of the p-th True entry of R in row-major order]; the length is the number of True entries."""
    R = getattr(reps, "counts_of", None)
    if R is None or R.ndim < 2:
        return None
    ctx = cur()
    ms = mask_selector(R)
    ctx.trusted.add("counting lemma (assumed; cross-checked natively): repeat(x, row counts of R)[p] = x[row of the p-th True of R]")
    # a consequence of the row-major order of the enumeration, stated for the solver: rows do not decrease
    p, q = z3.Int(ctx.fresh("rep.p")), z3.Int(ctx.fresh("rep.q"))
    sp, sq = ms.sel(p)[0], ms.sel(q)[0]
    ctx.assume(_forall([p, q], z3.Implies(z3.And(0 <= p, p <= q, q < ms.K), sp <= sq), patterns=[z3.MultiPattern(sp, sq)], dims=[rowmajor(R.zshape).N] * 2), tag="counting-lemma")
    out = SymArray((ms.K,), lambda idx: x.get((ms.sel(idx[0])[0],)), x._dtype)
    out.mutable = True
    return out
