"""segment_sum and logsumexp (C20).  Sums over symbolic extents are uninterpreted; every use is recorded
(ghost state) so that contracts can instantiate the finite-sum lemma schemas of DESIGN 4.3 on them."""

from __future__ import annotations

import z3

from ..ctx import Undecided, cur
from ..values import SymArray, T, asarray, same_dim, sort_of, zdim
from .jnp_impl import _axes, _fn


class SegSum:
    def __init__(self, S, data, ids, num):
        self.S, self.data, self.ids, self.num = S, data, ids, num


def segment_sum(data, segment_ids, num_segments=None, indices_are_sorted=False, **kw):
    ctx = cur()
    if kw:
        raise Undecided(f"segment_sum options {sorted(kw)}")
    data, ids = asarray(data), asarray(segment_ids)
    if num_segments is None or ids.ndim != 1 or data.ndim < 1:
        raise Undecided("segment_sum: unsupported call shape")
    if same_dim(data.zshape[0], ids.zshape[0]) is not True:
        ctx.prove_then_assume("segment_sum-lengths", data.zshape[0] == ids.zshape[0], "safety")
    num = zdim(num_segments)
    nm = ctx.fresh("segsum")
    S = _fn(nm, data.ndim, sort_of("float" if data._dtype != "int" else "int"))
    out = SymArray((num, *data.zshape[1:]), lambda idx: S(*idx), "float" if data._dtype != "int" else "int")
    if getattr(data, "positive", False):
        # a sum of positive terms over a non-empty segment is positive (Finset.sum_pos)
        from .jnp_impl import _forall
        from ..values import inrange

        j = z3.Int(nm + ".j")
        Tt = [z3.Int(f"{nm}.t{q}") for q in range(data.ndim - 1)]
        idj = ids.get((j,))
        ctx.assume(_forall([j] + Tt, z3.Implies(z3.And(j >= 0, j < data.zshape[0], inrange(data.zshape[1:], Tt), idj >= 0, idj < num), S(idj, *Tt) > 0), dims=list(data.zshape)), tag="math:Finset.sum_pos")
        ctx.trusted.add("finite-sum lemma (assumed): a sum of positive terms over a non-empty segment is positive")
    rec = SegSum(S, data, ids, num)
    out.segsum = rec
    ctx.memo.setdefault("segsums", []).append(rec)
    ctx.trusted.add("jax.ops.segment_sum (uninterpreted finite sum per segment; lemma schemas instantiated by contracts)")
    return out


def logsumexp(a, axis=None, **kw):
    """jax.scipy.special.logsumexp: uninterpreted reduction LSE over the given axes; the call is recorded"""
    ctx = cur()
    if kw:
        raise Undecided(f"logsumexp options {sorted(kw)}")
    a = asarray(a)
    red = _axes(a, axis)
    batch = tuple(x for x in range(a.ndim) if x not in red)
    nm = ctx.fresh("lse")
    Lf = _fn(nm, len(batch), z3.RealSort())
    out = SymArray(tuple(a.zshape[x] for x in batch), lambda idx: Lf(*idx), "float")
    ctx.memo.setdefault("lse-calls", []).append({"input": a, "axes": red, "out": out})
    ctx.trusted.add("jax.scipy.special.logsumexp (uninterpreted; C20 checks how it is called)")
    from ..values import unwrap0

    return unwrap0(out)
