from ..ctx import Undecided


def segment_sum(*a, **k):
    raise Undecided("segment_sum")


def logsumexp(*a, **k):
    raise Undecided("logsumexp")
