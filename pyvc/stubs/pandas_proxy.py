"""`pandas` as seen by shadow modules: the real library, except that a DataFrame whose columns are
symbolic arrays becomes a `SymFrame` (columns by name, symbolic number of rows, index as functions of the
row position), and MultiIndex.from_product of two ranges with symbolic extent is kept symbolic."""

from __future__ import annotations

import pandas as _pd
import z3

from ..ctx import Undecided, cur
from ..values import SymArray, T, lift, rowmajor, zdim


class SymIndex:
    def __init__(self, extents, names):
        self.extents, self.names = extents, names
        self.rm = rowmajor([zdim(e) for e in extents])

    def level_values_at(self, pos):
        """index tuple at row position pos"""
        return [T(u) for u in self.rm.unravel(lift(pos))]

    @property
    def n_rows(self):
        return T(self.rm.N)


class SymFrame:
    def __init__(self, columns, index):
        self.columns = dict(columns)
        self.index = index

    def __getitem__(self, c):
        return self.columns[c]


class _MultiIndex:
    @staticmethod
    def from_product(iterables, names=None, **kw):
        ext = []
        sym = False
        for it in iterables:
            if hasattr(it, "pyvc_len"):
                ext.append(it.pyvc_len())
                sym = True
            else:
                ext.append(len(it))
        if not sym:
            return _pd.MultiIndex.from_product(iterables, names=names, **kw)
        cur().trusted.add("pandas.MultiIndex.from_product (row-major product of the level ranges)")
        return SymIndex(ext, list(names) if names else None)

    def __getattr__(self, item):
        return getattr(_pd.MultiIndex, item)


def _DataFrame(data=None, index=None, **kw):
    if isinstance(data, dict) and (any(isinstance(v, SymArray) for v in data.values()) or isinstance(index, SymIndex)):
        cur().trusted.add("pandas.DataFrame(dict of 1-d arrays, index) (one column per key, row i = i-th elements)")
        return SymFrame(data, index)
    return _pd.DataFrame(data, index=index, **kw)


class _Proxy:
    MultiIndex = _MultiIndex()
    DataFrame = staticmethod(_DataFrame)

    def __getattr__(self, item):
        return getattr(_pd, item)


proxy = _Proxy()
