from ..ctx import Undecided


def PRNGKey(seed):
    raise Undecided("PRNGKey")


def split(key, num):
    raise Undecided("split")


def choice(key, a, p):
    raise Undecided("choice")
