"""PRNG contract (assumed, DESIGN 4.3).  Keys are terms of the algebraic datatype
    Key = root(seed) | child(parent, i) | folded(parent, data)
so keys with different derivation paths are distinct.  `split(k, n)[i] = child(k, i)`;
`fold_in(k, d) = folded(k, d)` (no event: folding does not consume the key, equal data give equal keys);
`choice(k, a, p)` = a[draw(k, site)] with 0 <= draw < len(a) and p[draw] > 0 (a label of positive
probability); the dependence on p is not modelled further (a fresh `site` per call).  Every use of a key
(split or draw) is recorded as a ghost event so that contracts can require 'no key is used twice'."""

from __future__ import annotations

import z3

from ..ctx import Undecided, cur
from ..values import SymArray, T, asarray, lift, unwrap0, zdim

Key = z3.Datatype("Key")
Key.declare("root", ("seed", z3.IntSort()))
Key.declare("child", ("parent", Key), ("index", z3.IntSort()))
Key.declare("folded", ("folded_from", Key), ("data", z3.IntSort()))
Key = Key.create()

_DRAW = z3.Function("draw", Key, z3.IntSort(), z3.IntSort())


def _event(kind, key):
    ctx = cur()
    ctx.events.append({"kind": kind, "key": key, "binders": list(ctx.binders)})


def PRNGKey(seed=0):
    cur().trusted.add("jax.random: keys form a derivation tree (distinct paths, distinct keys); draws from distinct keys independent (assumed)")
    return T(Key.root(lift(seed)))


def split(key, num=2):
    k = lift(key)
    _event("split", k)
    n = zdim(num)
    return SymArray((n,), lambda idx: Key.child(k, idx[0]), "key")


def fold_in(key, data):
    d = lift(data)
    if d.sort() != z3.IntSort():
        raise Undecided("fold_in with non-integer data")
    return T(Key.folded(lift(key), d))


def choice(key, a, p=None):
    ctx = cur()
    k = lift(key)
    _event("draw", k)
    a = asarray(a)
    if a.ndim != 1:
        raise Undecided("random.choice over an n-d array")
    site = ctx.memo.get("draw-sites", 0)
    ctx.memo["draw-sites"] = site + 1
    j = _DRAW(k, z3.IntVal(site))
    n = a.zshape[0]
    ctx.assume(z3.And(j >= 0, j < n), tag="random.choice")
    if p is not None:
        p = asarray(p)
        ctx.assume(p.get((j,)) > 0, tag="random.choice")
    out = SymArray((), lambda idx: a.get((j,)), a._dtype)
    out.draw_index = T(j)
    return unwrap0(out)
