"""Library contracts for jax transformations, PRNG, exp/log, grid constructors, layout ops."""

from __future__ import annotations

import functools

import z3

from ..ctx import Undecided, cur
from ..values import (
    SymArray,
    T,
    asarray,
    as_bool,
    conc,
    dtype_name,
    elementwise,
    inrange,
    is_one,
    join_dtype,
    lift,
    pydim,
    rowmajor,
    same_dim,
    sort_of,
    unwrap0,
    zdim,
    _to_real,
)
from .jnp_impl import _fn, _forall

EULER = T(z3.Real("euler_e"))
_EXP = z3.Function("exp", z3.RealSort(), z3.RealSort())
_LOG = z3.Function("log", z3.RealSort(), z3.RealSort())


def math_axioms():
    """ground facts about the constants (no quantified exp/log axioms: DESIGN 4.3, 11)"""
    e = EULER.e
    return [e > z3.RealVal("2.718"), e < z3.RealVal("2.719"), _LOG(e) == 1, _EXP(z3.RealVal(0)) == 1, _LOG(z3.RealVal(1)) == 0, _EXP(z3.RealVal(1)) == e]


def exp_term(x):
    return _EXP(_to_real(lift(x)))


def log_term(x):
    return _LOG(_to_real(lift(x)))


def _note_exp(t):
    """ground instances of the exp/log facts for a scalar argument that actually occurs (DESIGN 4.3):
    positivity, log(exp t) = t, and strict monotonicity against every exp argument seen so far"""
    ctx = cur()
    if ctx.binders:
        return
    seen = ctx.memo.setdefault("exp-args", [])
    if any(z3.eq(t, u) for u in seen):
        return
    ctx.assume(_EXP(t) > 0, tag="math:Real.exp_pos")
    ctx.assume(_LOG(_EXP(t)) == t, tag="math:Real.log_exp")
    for u in seen:
        ctx.assume(z3.And(z3.Implies(t < u, _EXP(t) < _EXP(u)), z3.Implies(t == u, _EXP(t) == _EXP(u)), z3.Implies(t > u, _EXP(t) > _EXP(u))), tag="math:Real.exp_lt_exp")
    seen.append(t)
    ctx.trusted.add("Mathlib facts, ground instances for occurring terms: Real.exp_pos, Real.log_exp, Real.exp_lt_exp")


def _note_log(x):
    ctx = cur()
    if ctx.binders:
        return
    seen = ctx.memo.setdefault("log-args", [])
    if any(z3.eq(x, u) for u in seen):
        return
    ctx.assume(z3.Implies(x > 0, _EXP(_LOG(x)) == x), tag="math:Real.exp_log")
    for u in seen:
        ctx.assume(z3.Implies(z3.And(x > 0, u > 0), z3.And(z3.Implies(x < u, _LOG(x) < _LOG(u)), z3.Implies(x == u, _LOG(x) == _LOG(u)), z3.Implies(x > u, _LOG(x) > _LOG(u)))), tag="math:Real.log_lt_log")
    seen.append(x)
    _note_exp(_LOG(x))
    ctx.trusted.add("Mathlib facts, ground instances for occurring terms: Real.exp_log, Real.log_lt_log")


def exp(x):
    cur().trusted.add("jnp.exp (uninterpreted; ground lemma instances of Mathlib facts)")
    xa = asarray(x)
    if xa.ndim == 0:
        _note_exp(_to_real(xa.get(())))
    else:
        cur().memo.setdefault("exp-array-args", []).append(xa)  # ghost: arguments of elementwise exp
    out = elementwise((x,), lambda e: _EXP(_to_real(e)), "float")
    if isinstance(out, SymArray):
        out.positive = True  # exp > 0 (Real.exp_pos)
    return out


def log(x):
    ctx = cur()
    ctx.trusted.add("jnp.log (uninterpreted; ground lemma instances of Mathlib facts)")
    xa = asarray(x)
    from ..values import NAN, NINF, PINF

    if xa.ndim == 0:
        e = _to_real(xa.get(()))
        if any(z3.eq(e, c) for c in (NAN, NINF, PINF)):
            ctx.prove("log-of-non-finite", z3.BoolVal(False), "safety")
        else:
            # jnp.log of a non-positive number is nan / -inf: outside the real-valued model
            ctx.prove_then_assume("log-of-non-positive", e > 0, "safety")
            _note_log(e)
    else:
        I = [z3.Int(ctx.fresh("lg")) for _ in range(xa.ndim)]
        ctx.prove_then_assume("log-of-non-positive", _forall(I, z3.Implies(inrange(xa.zshape, I), _to_real(xa.get(tuple(I))) > 0), dims=list(xa.zshape)), "safety")
    return elementwise((x,), lambda e: _LOG(_to_real(e)), "float")


def log1p(x):
    return log(asarray(x) + 1 if not isinstance(x, (int, float)) else x + 1)


def isfinite(x):
    raise Undecided("jnp.isfinite")


def lax_round(x):
    raise Undecided("lax.round (integer-valued interpolation input)")


# ----------------------------------------------------------------------------- grids
def linspace(start, stop, num):
    ctx = cur()
    a, b = _to_real(lift(start)), _to_real(lift(stop))
    n = zdim(num)
    from ..values import NAN, NINF, PINF

    if any(z3.eq(v, c) for v in (a, b) for c in (NAN, NINF, PINF)):
        # non-finite bounds give nan/inf entries: outside the real-valued model, reported as a failure
        ctx.prove("linspace-non-finite-bounds", z3.BoolVal(False), "safety")
    ctx.trusted.add("jnp.linspace(a, b, n)[i] = a + i (b - a)/(n - 1)")

    def get(idx):
        i = z3.ToReal(idx[0])
        cn = conc(n)
        if cn == 1:
            return a
        gen = a + i * ((b - a) / (z3.ToReal(n) - 1))
        if cn is not None:
            return gen
        return z3.If(n == 1, a, gen)

    return SymArray((n,), get, "float")


def logspace(start, stop, num, base=10.0):
    ctx = cur()
    if not (isinstance(base, T) and z3.eq(base.e, EULER.e)):
        raise Undecided("jnp.logspace with a base other than e")
    a, b = _to_real(lift(start)), _to_real(lift(stop))
    n = zdim(num)
    ctx.trusted.add("jnp.logspace(a, b, n, base=e)[i] = exp(a + i (b - a)/(n - 1))")

    def get(idx):
        i = z3.ToReal(idx[0])
        cn = conc(n)
        if cn == 1:
            return _EXP(a)
        gen = _EXP(a + i * ((b - a) / (z3.ToReal(n) - 1)))
        if cn is not None:
            return gen
        return z3.If(n == 1, _EXP(a), gen)

    return SymArray((n,), get, "float")


# ----------------------------------------------------------------------------- layout
def repeat(x, repeats, axis=None, total_repeat_length=None):
    if isinstance(repeats, SymArray) and repeats.ndim > 0:
        from .counting import np_repeat

        return np_repeat(x, repeats)
    r = zdim(repeats)
    if not isinstance(x, SymArray) or x.ndim == 0:
        e = lift(x if not isinstance(x, SymArray) else x.get(()))
        from ..values import dtype_of

        return SymArray((r,), lambda idx: e, dtype_of(e))
    if x.ndim != 1:
        raise Undecided("jnp.repeat on an n-d array")
    rm = rowmajor((x.zshape[0], r))
    cur().trusted.add("jnp.repeat / jnp.tile (row-major pair bijection)")
    return SymArray((rm.N,), lambda idx: x.get((rm.unravel(idx[0])[0],)), x._dtype)


def tile(x, reps):
    x = asarray(x)
    if x.ndim != 1:
        raise Undecided("jnp.tile on an n-d array")
    r = zdim(reps)
    rm = rowmajor((r, x.zshape[0]))
    cur().trusted.add("jnp.repeat / jnp.tile (row-major pair bijection)")
    return SymArray((rm.N,), lambda idx: x.get((rm.unravel(idx[0])[1],)), x._dtype)


def meshgrid(*arrs, indexing="xy"):
    arrs = [asarray(a) for a in arrs]
    if any(a.ndim != 1 for a in arrs):
        raise Undecided("meshgrid of non 1-d arrays")
    k = len(arrs)
    order = list(range(k))
    if indexing == "xy" and k >= 2:
        order[0], order[1] = 1, 0
    elif indexing not in ("ij", "xy"):
        raise ValueError("indexing must be 'xy' or 'ij'")
    shape = tuple(arrs[order[pos]].zshape[0] for pos in range(k))
    out = []
    for q, a in enumerate(arrs):
        pos = order.index(q)
        out.append(SymArray(shape, (lambda a, pos: lambda idx: a.get((idx[pos],)))(a, pos), a._dtype))
    return out


def stack(arrs, axis=0):
    arrs = [asarray(a) for a in arrs]
    if not arrs:
        raise ValueError("need at least one array to stack")
    r = arrs[0].ndim
    axis = axis % (r + 1)
    n = len(arrs)
    dt = join_dtype(*[a._dtype for a in arrs])
    arrs = [a.astype(dt) for a in arrs]
    base = arrs[0].zshape
    for a in arrs[1:]:
        for d1, d2 in zip(base, a.zshape):
            if same_dim(d1, d2) is not True:
                cur().prove_then_assume("stack-shapes", d1 == d2, "safety")
    shape = base[:axis] + (z3.IntVal(n),) + base[axis:]

    def get(idx):
        sel = idx[axis]
        rest = tuple(idx[:axis]) + tuple(idx[axis + 1 :])
        out = arrs[-1].get(rest)
        for p in range(n - 2, -1, -1):
            out = z3.If(sel == p, arrs[p].get(rest), out)
        return out

    return SymArray(shape, get, dt)


def concatenate(arrs, axis=0, dtype=None):
    if hasattr(arrs, "pyvc_concatenate"):
        return arrs.pyvc_concatenate()
    arrs = [asarray(a) for a in arrs]
    if dtype is not None:
        arrs = [a.astype(dtype) for a in arrs]
    if axis != 0 or any(a.ndim != 1 for a in arrs):
        raise Undecided("concatenate other than 1-d along axis 0")
    if not arrs:
        raise ValueError("need at least one array to concatenate")
    dt = join_dtype(*[a._dtype for a in arrs])
    arrs = [a.astype(dt) for a in arrs]
    offs = [z3.IntVal(0)]
    for a in arrs:
        offs.append(z3.simplify(offs[-1] + a.zshape[0]))

    def get(idx):
        p = idx[0]
        out = arrs[-1].get((p - offs[-2],))
        for q in range(len(arrs) - 2, -1, -1):
            out = z3.If(p < offs[q + 1], arrs[q].get((p - offs[q],)), out)
        return out

    return SymArray((offs[-1],), get, dt)


def unravel_index(indices, shape):
    shape = tuple(zdim(d) for d in shape)
    rm = rowmajor(shape)
    cur().trusted.add("jnp.unravel_index (row-major bijection)")
    k = len(shape)
    if isinstance(indices, SymArray) and indices.ndim > 0:
        a = indices
        return tuple(
            SymArray(a.zshape, (lambda q: lambda idx: rm.unravel(a.get(idx))[q])(q), "int") for q in range(k)
        )
    p = lift(indices if not isinstance(indices, SymArray) else indices.get(()))
    return tuple(T(u) for u in rm.unravel(p))


class _Unique:
    def __init__(self, n):
        self.n = n

    def pyvc_len(self):
        return self.n


def unique(x):
    ctx = cur()
    x = asarray(x)
    if x.ndim != 1:
        raise Undecided("unique of n-d array")
    nm = ctx.fresh("unique")
    U = z3.Int(nm + ".count")
    n = x.zshape[0]
    ctx.assume(z3.And(U >= 0, U <= n, z3.Implies(n >= 1, U >= 1)), tag="unique")
    ctx.memo.setdefault("uniques", []).append((U, x))
    ctx.trusted.add("len(jnp.unique(x)) = number of distinct values")
    return _Unique(pydim(U))


# ----------------------------------------------------------------------------- segment_sum / logsumexp
def segment_sum(data, segment_ids, num_segments=None, indices_are_sorted=False, **kw):
    from .explog import segment_sum as impl

    return impl(data, segment_ids, num_segments, indices_are_sorted, **kw)


def logsumexp(a, axis=None, **kw):
    from .explog import logsumexp as impl

    return impl(a, axis, **kw)


# ----------------------------------------------------------------------------- util
def safe_zip(*args):
    args = [list(a) for a in args]
    n = len(args[0]) if args else 0
    for a in args[1:]:
        if len(a) != n:
            raise ValueError(f"safe_zip() argument lengths differ: {len(a)} != {n}")
    return list(zip(*args))


def unzip2(xys):
    xs, ys = [], []
    for x, y in xys:
        xs.append(x)
        ys.append(y)
    return tuple(xs), tuple(ys)


# ----------------------------------------------------------------------------- vmap
def _map_leaves(tree, f):
    if tree is None:
        return None
    if isinstance(tree, dict):
        return {k: _map_leaves(v, f) for k, v in tree.items()}
    if isinstance(tree, (list, tuple)):
        return type(tree)(_map_leaves(v, f) for v in tree)
    return f(tree)


def _leaves(tree):
    if tree is None:
        return []
    if isinstance(tree, dict):
        return [l for v in tree.values() for l in _leaves(v)]
    if isinstance(tree, (list, tuple)):
        return [l for v in tree for l in _leaves(v)]
    return [tree]


def vmap(fun, in_axes=0, out_axes=0):
    if not isinstance(out_axes, int):
        raise Undecided("vmap with a pytree of out_axes")

    @functools.wraps(fun)
    def vmapped(*args, **kwargs):
        ctx = cur()
        axes = in_axes
        if isinstance(axes, int) or axes is None:
            axes = [axes] * len(args)
        axes = list(axes)
        if len(axes) != len(args):
            raise ValueError(
                f"vmap in_axes must be an int, None, or a tuple of entries corresponding to the positional arguments passed to the function, but got {len(axes)=}, {len(args)=}"
            )
        if all(a is None for a in axes):
            raise ValueError("vmap must have at least one non-None value in in_axes")
        n = None
        for a, ax in zip(args, axes):
            if ax is None:
                continue
            if ax != 0:
                raise Undecided("vmap in_axes other than 0/None")
            for leaf in _leaves(a):
                if not isinstance(leaf, SymArray) or leaf.ndim == 0:
                    raise ValueError(
                        "vmap was requested to map its argument along axis 0, which implies that its rank should be at least 1, but is only 0"
                    )
                d = leaf.zshape[0]
                if n is None:
                    n = d
                else:
                    sd = same_dim(n, d)
                    if sd is False:
                        raise ValueError("vmap got inconsistent sizes for array axes to be mapped")
                    if sd is None:
                        ctx.prove_then_assume("vmap-sizes-equal", n == d, "safety")
        # jax.vmap maps every keyword argument along axis 0
        for leaf in _leaves(kwargs):
            if not isinstance(leaf, SymArray) or leaf.ndim == 0:
                raise ValueError(
                    "vmap was requested to map its argument along axis 0, which implies that its rank should be at least 1, but is only 0"
                )
            d = leaf.zshape[0]
            if n is None:
                n = d
            else:
                sd = same_dim(n, d)
                if sd is False:
                    raise ValueError("vmap got inconsistent sizes for array axes to be mapped")
                if sd is None:
                    ctx.prove_then_assume("vmap-sizes-equal", n == d, "safety")
        if n is None:
            raise ValueError("vmap must have at least one non-None value in in_axes")
        i = z3.Int(ctx.fresh("vm"))
        ctx.push_binder(i, n)
        try:
            inner = [a if ax is None else _map_leaves(a, lambda leaf: leaf[T(i)]) for a, ax in zip(args, axes)]
            inner_kw = _map_leaves(kwargs, lambda leaf: leaf[T(i)])
            res = fun(*inner, **inner_kw)
        finally:
            ctx.pop_binder()

        def lift_leaf(leaf):
            if isinstance(leaf, SymArray):
                arr = leaf
            elif leaf is None:
                return None
            else:
                try:
                    arr = asarray(leaf)
                except Undecided:
                    raise Undecided(f"vmapped function returned a {type(leaf).__name__}") from None

            pos = out_axes % (arr.ndim + 1)  # position of the mapped axis in this output leaf

            def get(idx):
                rest = tuple(idx[:pos]) + tuple(idx[pos + 1 :])
                return z3.substitute(arr.get(rest), (i, idx[pos]))

            return SymArray((*arr.zshape[:pos], n, *arr.zshape[pos:]), get, arr._dtype)

        ctx.trusted.add("jax.vmap (trace-like: out[i] = f(mapped args at i))")
        return _map_leaves(res, lift_leaf)

    return vmapped


# ----------------------------------------------------------------------------- PRNG
def PRNGKey(seed=0):
    from .prng import PRNGKey as impl

    return impl(seed)


def split(key, num=2):
    from .prng import split as impl

    return impl(key, num)


def fold_in(key, data):
    from .prng import fold_in as impl

    return impl(key, data)


def choice(key, a, shape=(), replace=True, p=None, axis=0):
    from .prng import choice as impl

    return impl(key, a, p)
