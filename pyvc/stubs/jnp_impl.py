"""Library contracts (DESIGN App. B) for the array operations `lcm` uses.

Every function here is an *assumed* contract of jax.numpy / numpy / jax.ops: it returns a
symbolic result, adds the axioms that characterise it to the current path and records the
stub name in `ctx.trusted`.  Preconditions of the library call become safety obligations.
"""

from __future__ import annotations

import z3

from ..ctx import Undecided, cur
from ..values import (
    INT_MIN,
    NINF,
    Inf,
    SymArray,
    T,
    asarray,
    as_bool,
    broadcast_shapes,
    cast_scalar,
    conc,
    dtype_name,
    elementwise,
    inrange,
    is_one,
    join_dtype,
    lift,
    project,
    pydim,
    reshape,
    rowmajor,
    same_dim,
    sort_of,
    stack_list,
    unwrap0,
    zdim,
    _num_pair,
    _to_real,
    _to_int,
)


def _axes(a, axis):
    if axis is None:
        return tuple(range(a.ndim))
    if isinstance(axis, (int, T)):
        axis = (int(axis),)
    out = tuple(int(x) % a.ndim if a.ndim else int(x) for x in axis)
    if len(set(out)) != len(out):
        raise ValueError("duplicate value in 'axis'")
    return out


def _fn(name, nargs, sort):
    """Skolem function of `nargs` indices; implicitly also a function of every enclosing vmap
    index variable (so that a reduction inside a vmapped function gets one result per lane)."""
    bvars = [v for v, _ in cur().binders]
    total = nargs + len(bvars)
    if total == 0:
        c = z3.Const(name, sort)
        return lambda *args: c
    f = z3.Function(name, *([z3.IntSort()] * total), sort)
    return lambda *args: f(*args, *bvars)


def _merge(batch_axes, red_axes, b, r, ndim):
    idx = [None] * ndim
    for ax, v in zip(batch_axes, b):
        idx[ax] = v
    for ax, v in zip(red_axes, r):
        idx[ax] = v
    return tuple(idx)


EXPAND_LIMIT = 4096


def _forall(vs, body, patterns=None, dims=None):
    """∀ vs. body.  When `dims` (the extent of every variable's range [0, dim)) are all concrete
    and small, the quantifier is expanded into a conjunction, so that bounded re-runs of a
    failed obligation are quantifier-free and yield definite models."""
    if not vs:
        return body
    if dims is not None:
        cs = [conc(zdim(d)) for d in dims]
        if all(c is not None for c in cs):
            total = 1
            for c in cs:
                total *= max(c, 0)
            if total <= EXPAND_LIMIT:
                import itertools

                out = []
                for vals in itertools.product(*[range(c) for c in cs]):
                    out.append(z3.substitute(body, *[(v, z3.IntVal(x)) for v, x in zip(vs, vals)]))
                return z3.And(*out) if out else z3.BoolVal(True)
    if patterns:
        try:
            return z3.ForAll(vs, body, patterns=patterns)
        except z3.Z3Exception:  # pattern rejected (interpreted head, missing variable): let z3 infer one
            pass
    return z3.ForAll(vs, body)


# ----------------------------------------------------------------------------- max
def reduce_min(a, axis=None, initial=None, where=None, keepdims=False):
    """min(a) = -max(-a) (exact for integers and reals; bool arrays are not supported)"""
    a = asarray(a)
    if a._dtype == "bool":
        raise Undecided("min of a boolean array")
    if where is not None and initial is None:
        raise ValueError("reduction operation min does not have an identity, so to use a where mask one has to specify 'initial'")
    out = reduce_max(-a, axis=axis, initial=None if initial is None else -lift_value(initial), where=where, keepdims=keepdims)
    return -out


def lift_value(v):
    from ..values import T

    return v if isinstance(v, (int, float, T)) else v


def reduce_max(a, axis=None, initial=None, where=None, keepdims=False):
    ctx = cur()
    a = asarray(a)
    red = _axes(a, axis)
    batch = tuple(x for x in range(a.ndim) if x not in red)
    if where is not None and initial is None:
        raise ValueError("reduction operation max does not have an identity, so to use a where mask one has to specify 'initial'")
    if initial is None:
        for x in red:
            ctx.prove_then_assume("max-of-empty-axis", a.zshape[x] >= 1, "safety")
    w = asarray(where) if where is not None else None
    if w is not None:
        broadcast_shapes([a.zshape, w.zshape])
    nm = ctx.fresh("max")
    sort = sort_of(a._dtype)
    M = _fn(nm, len(batch), sort)
    W = [_fn(f"{nm}.arg{q}", len(batch), z3.IntSort()) for q in range(len(red))]
    B = [z3.Int(f"{nm}.b{q}") for q in range(len(batch))]
    R = [z3.Int(f"{nm}.r{q}") for q in range(len(red))]
    bshape = [a.zshape[x] for x in batch]
    rshape = [a.zshape[x] for x in red]

    def live(idx):
        if w is None:
            return z3.BoolVal(True)
        return as_bool(w.get(project(idx, w.zshape, a.ndim)))

    full = _merge(batch, red, B, R, a.ndim)
    init = None if initial is None else lift(initial)
    if init is not None and z3.is_real(a.get(full)) and not z3.is_real(init):
        init = _to_real(init)
    ax = []
    MB = M(*B)
    # upper bound
    ax.append(
        _forall(
            B + R,
            z3.Implies(z3.And(inrange(bshape, B), inrange(rshape, R), live(full)), a.get(full) <= MB),
            patterns=[a.get(full)] if (B + R) and not z3.is_const(a.get(full)) and _has_vars(a.get(full), B + R) else None,
            dims=bshape + rshape,
        )
    )
    # attained
    wit = [f(*B) for f in W]
    wfull = _merge(batch, red, B, wit, a.ndim)
    attained = z3.And(inrange(rshape, wit), live(wfull), a.get(wfull) == MB)
    if init is not None:
        ax.append(_forall(B, z3.Implies(inrange(bshape, B), z3.And(MB >= init, z3.Or(attained, MB == init))), patterns=[MB] if B else None, dims=bshape))
    else:
        ax.append(_forall(B, z3.Implies(inrange(bshape, B), attained), patterns=[MB] if B else None, dims=bshape))
    for f in ax:
        ctx.assume(f, tag="jnp.max")
    ctx.trusted.add("jnp.max(axis, keepdims, initial, where)")
    if keepdims:
        shape = [z3.IntVal(1) if x in red else a.zshape[x] for x in range(a.ndim)]
        out = SymArray(tuple(shape), lambda idx: M(*[idx[x] for x in batch]), a._dtype)
    else:
        out = SymArray(tuple(bshape), lambda idx: M(*idx), a._dtype)
    out.witness = W
    return unwrap0(out)


def _has_vars(e, vs):
    """every bound variable occurs in e (needed for a legal single-term pattern)"""
    seen = set()
    todo = [e]
    ids = {v.get_id() for v in vs}
    found = set()
    while todo:
        x = todo.pop()
        i = x.get_id()
        if i in seen:
            continue
        seen.add(i)
        if i in ids:
            found.add(i)
        todo.extend(x.children())
    return found == ids


# ----------------------------------------------------------------------------- argmax of a boolean array
def argmax(a, axis=None):
    ctx = cur()
    a = asarray(a)
    if a._dtype != "bool":
        raise Undecided("jnp.argmax stub only covers boolean arrays (first True)")
    if axis is None:
        a = reshape(a, (-1,))
        axis = 0
    axis = int(axis) % a.ndim
    batch = tuple(x for x in range(a.ndim) if x != axis)
    n = a.zshape[axis]
    ctx.prove_then_assume("argmax-of-empty-axis", n >= 1, "safety")
    nm = ctx.fresh("argmax")
    R = _fn(nm, len(batch), z3.IntSort())
    B = [z3.Int(f"{nm}.b{q}") for q in range(len(batch))]
    j = z3.Int(nm + ".j")
    bshape = [a.zshape[x] for x in batch]
    at = lambda jj: a.get(_merge(batch, (axis,), B, (jj,), a.ndim))
    RB = R(*B)
    ax = [
        _forall(B, z3.Implies(inrange(bshape, B), z3.And(RB >= 0, RB < n, z3.Or(at(RB), RB == 0))), patterns=[RB] if B else None, dims=bshape),
        _forall(
            B + [j],
            z3.Implies(
                z3.And(inrange(bshape, B), j >= 0, j < n),
                z3.And(z3.Implies(j < RB, z3.Not(at(j))), z3.Implies(at(j), at(RB))),
            ),
            dims=bshape + [n],
        ),
    ]
    for f in ax:
        ctx.assume(f, tag="jnp.argmax")
    ctx.trusted.add("jnp.argmax(bool array) = first True, 0 if none")
    return unwrap0(SymArray(tuple(bshape), lambda idx: R(*idx), "int"))


# ----------------------------------------------------------------------------- segment reductions
def segment_max(data, segment_ids, num_segments=None, indices_are_sorted=False, **kw):
    ctx = cur()
    if kw:
        raise Undecided(f"segment_max options {sorted(kw)}")
    data, ids = asarray(data), asarray(segment_ids)
    if num_segments is None:
        raise Undecided("segment_max without num_segments")
    if ids.ndim != 1 or data.ndim < 1:
        raise Undecided("segment_max: ids must be 1-d")
    sd = same_dim(data.zshape[0], ids.zshape[0])
    if sd is False:
        raise ValueError("segment_ids and data length differ")
    if sd is None:
        ctx.prove_then_assume("segment_max-lengths", data.zshape[0] == ids.zshape[0], "safety")
    n = data.zshape[0]
    num = zdim(num_segments)
    nm = ctx.fresh("segmax")
    jv, j2 = z3.Int(nm + ".j"), z3.Int(nm + ".j2")
    if indices_are_sorted:
        ctx.prove_then_assume(
            "segment_max-ids-sorted",
            _forall([jv, j2], z3.Implies(z3.And(0 <= jv, jv <= j2, j2 < n), ids.get((jv,)) <= ids.get((j2,))), dims=[n, n]),
            "pre",
        )
    tr = data.zshape[1:]
    nt = len(tr)
    sort = sort_of(data._dtype)
    S = _fn(nm, 1 + nt, sort)
    Wt = _fn(nm + ".arg", 1 + nt, z3.IntSort())
    r = z3.Int(nm + ".r")
    Tt = [z3.Int(f"{nm}.t{q}") for q in range(nt)]
    neutral = NINF if data._dtype == "float" else (INT_MIN if data._dtype == "int" else z3.BoolVal(False))
    idj = ids.get((jv,))
    w = Wt(r, *Tt)
    wit_ok = z3.And(w >= 0, w < n, ids.get((w,)) == r, data.get((w, *Tt)) == S(r, *Tt))
    ax = [
        _forall(
            [jv] + Tt,
            z3.Implies(
                z3.And(jv >= 0, jv < n, inrange(tr, Tt), idj >= 0, idj < num),
                z3.And(data.get((jv, *Tt)) <= S(idj, *Tt), z3.And(Wt(idj, *Tt) >= 0, Wt(idj, *Tt) < n, ids.get((Wt(idj, *Tt),)) == idj, data.get((Wt(idj, *Tt), *Tt)) == S(idj, *Tt))),
            ),
            dims=[n] + list(tr),
        ),
        _forall(
            [r] + Tt,
            z3.Implies(z3.And(r >= 0, r < num, inrange(tr, Tt)), z3.Or(wit_ok, S(r, *Tt) == neutral)),
            patterns=[S(r, *Tt)],
            dims=[num] + list(tr),
        ),
    ]
    for f in ax:
        ctx.assume(f, tag="segment_max")
    ctx.trusted.add("jax.ops.segment_max(data, ids, num, indices_are_sorted)")
    out = SymArray((num, *tr), lambda idx: S(*idx), data._dtype)
    out.witness = Wt
    return out


# ----------------------------------------------------------------------------- sums
class SumRecord:
    def __init__(self, const, shape, summand):
        self.const, self.shape, self.summand = const, shape, summand


def reduce_sum(a, axis=None):
    ctx = cur()
    a = asarray(a)
    if a.ndim == 0:
        return unwrap0(a)
    red = _axes(a, axis)
    batch = tuple(x for x in range(a.ndim) if x not in red)
    rshape = [a.zshape[x] for x in red]
    bshape = [a.zshape[x] for x in batch]
    sizes = [conc(d) for d in rshape]
    dt = "int" if a._dtype == "bool" else a._dtype
    zero = z3.RealVal(0) if dt == "float" else z3.IntVal(0)
    total = 1
    for s in sizes:
        total = total * s if s is not None and total is not None else None
    if total is not None and total <= 64:
        import itertools

        def get(idx):
            out = zero
            first = True
            for r in itertools.product(*[range(s) for s in sizes]):
                v = a.get(_merge(batch, red, idx, [z3.IntVal(x) for x in r], a.ndim))
                if z3.is_bool(v):
                    v = _to_int(v)
                out = v if first else out + v
                first = False
            return out

        return unwrap0(SymArray(tuple(bshape), get, dt))
    # symbolic extent: an uninterpreted sum operator identified by (extent, summand); equality of two
    # such sums is established by the extensionality rule in vc.sum_ext (DESIGN 4.3)
    nm = ctx.fresh("sum")
    S = _fn(nm, len(batch), sort_of(dt))
    rec = ctx.memo.setdefault("sums", [])
    rec.append((nm, S, a, red, batch))
    ctx.trusted.add("finite sum over a symbolic extent (uninterpreted; extensionality rule)")
    return unwrap0(SymArray(tuple(bshape), lambda idx: S(*idx), dt))


def reduce_any(a, axis=None):
    ctx = cur()
    a = asarray(a)
    if a.ndim == 0:
        return unwrap0(a)
    red = _axes(a, axis)
    batch = tuple(x for x in range(a.ndim) if x not in red)
    if not red:
        return a
    rshape = [a.zshape[x] for x in red]
    bshape = [a.zshape[x] for x in batch]
    nm = ctx.fresh("any")
    A = _fn(nm, len(batch), z3.BoolSort())
    W = [_fn(f"{nm}.w{q}", len(batch), z3.IntSort()) for q in range(len(red))]
    B = [z3.Int(f"{nm}.b{q}") for q in range(len(batch))]
    R = [z3.Int(f"{nm}.r{q}") for q in range(len(red))]
    full = _merge(batch, red, B, R, a.ndim)
    wit = [f(*B) for f in W]
    wfull = _merge(batch, red, B, wit, a.ndim)
    ax = [
        _forall(B + R, z3.Implies(z3.And(inrange(bshape, B), inrange(rshape, R), as_bool(a.get(full))), A(*B)), dims=bshape + rshape),
        _forall(B, z3.Implies(z3.And(inrange(bshape, B), A(*B)), z3.And(inrange(rshape, wit), as_bool(a.get(wfull)))), patterns=[A(*B)] if B else None, dims=bshape),
    ]
    for f in ax:
        ctx.assume(f, tag="any")
    ctx.trusted.add("any(axis)")
    out = SymArray(tuple(bshape), lambda idx: A(*idx), "bool")
    out.witness = W
    out.any_of = (a, red)
    return unwrap0(out)


def cumsum_flat(a):
    from .counting import cumsum_flat as impl

    return impl(a)


# ----------------------------------------------------------------------------- constructors
def arange(n, *rest, dtype=None):
    if rest:
        start, stop = n, rest[0]
        if len(rest) > 1:
            raise Undecided("arange with a step")
        s = lift(start)
        return SymArray((z3.simplify(zdim(stop) - s),), lambda idx: idx[0] + s, "int")
    return SymArray((zdim(n),), lambda idx: idx[0], "int")


def full(shape, fill_value, dtype=None):
    if not isinstance(shape, (tuple, list)):
        shape = (shape,)
    e = lift(fill_value)
    dt = dtype_name(dtype) if dtype is not None else ("float" if z3.is_real(e) else ("bool" if z3.is_bool(e) else "int"))
    return SymArray(tuple(zdim(d) for d in shape), lambda idx: e, dt)


def broadcast_to(a, shape):
    a = asarray(a)
    shape = tuple(zdim(d) for d in shape)
    r = len(shape)
    off = r - a.ndim
    if off < 0:
        raise ValueError("broadcast_to: target rank too small")
    for k in range(a.ndim):
        if not is_one(a.zshape[k]):
            sd = same_dim(a.zshape[k], shape[off + k])
            if sd is False:
                raise ValueError("incompatible shapes for broadcasting")
            if sd is None:
                cur().prove_then_assume("broadcast_to-dims", a.zshape[k] == shape[off + k], "safety")
    return SymArray(shape, lambda idx: a.get(project(idx, a.zshape, r)), a._dtype)


def logical_and(a, b):
    return elementwise((a, b), lambda x, y: z3.And(as_bool(x), as_bool(y)), "bool")


def logical_or(a, b):
    return elementwise((a, b), lambda x, y: z3.Or(as_bool(x), as_bool(y)), "bool")


def logical_not(a):
    return elementwise((a,), lambda x: z3.Not(as_bool(x)), "bool")


def where(c, x, y):
    def op(cc, xx, yy):
        xx, yy = _num_pair(xx, yy)
        return z3.If(as_bool(cc), xx, yy)

    dt = join_dtype(asarray(x)._dtype, asarray(y)._dtype)
    return elementwise((c, x, y), op, dt)


def array(x, dtype=None, copy=True):
    if isinstance(x, SymArray):
        out = x if dtype is None else x.astype(dtype)
        return out
    if isinstance(x, (T, int, float, bool, Inf)):
        return T(lift(x)) if dtype is None else cast_scalar(x, dtype_name(dtype))
    if isinstance(x, (list, tuple)):
        return stack_list(list(x), dtype)
    return asarray(x, dtype)


def floor(x):
    def op(e):
        if z3.is_int(e):
            return _to_real(e)
        return z3.ToReal(z3.ToInt(e))

    return elementwise((x,), op, "float")


def ceil(x):
    def op(e):
        if z3.is_int(e):
            return _to_real(e)
        return -z3.ToReal(z3.ToInt(-e))

    return elementwise((x,), op, "float")


def minimum(a, b):
    def op(x, y):
        x, y = _num_pair(x, y)
        return z3.If(x <= y, x, y)

    return elementwise((a, b), op)


def maximum(a, b):
    def op(x, y):
        x, y = _num_pair(x, y)
        return z3.If(x >= y, x, y)

    return elementwise((a, b), op)


def absolute(a):
    return elementwise((a,), lambda x: z3.If(_to_int(x) >= 0, _to_int(x), -_to_int(x)) if not z3.is_real(x) else z3.If(x >= 0, x, -x))


def squeeze(a, axis=None):
    a = asarray(a)
    if a.ndim == 0:
        return unwrap0(a)
    axes = _axes(a, axis) if axis is not None else tuple(d for d in range(a.ndim) if is_one(a.zshape[d]))
    for d in axes:
        if not is_one(a.zshape[d]):
            raise ValueError("cannot select an axis to squeeze out which has size not equal to one")
    keep = [d for d in range(a.ndim) if d not in axes]

    def get(idx):
        it = iter(idx)
        return a.get(tuple(z3.IntVal(0) if d in axes else next(it) for d in range(a.ndim)))

    return unwrap0(SymArray(tuple(a.zshape[d] for d in keep), get, a._dtype))


def clip(x, lo=None, hi=None):
    def op(e, *b):
        it = iter(b)
        if lo is not None:
            l = next(it)
            e, l = _num_pair(e, l)
            e = z3.If(e < l, l, e)
        if hi is not None:
            h = next(it)
            e, h = _num_pair(e, h)
            e = z3.If(e > h, h, e)
        return e

    args = [x] + [b for b in (lo, hi) if b is not None]
    dt = join_dtype(*[asarray(v)._dtype for v in args])
    return elementwise(args, op, dt)


def prod(a, axis=None):
    a = asarray(a)
    if a.ndim == 0:
        return unwrap0(a)
    if a.ndim != 1 or conc(a.zshape[0]) is None:
        raise Undecided("jnp.prod over a symbolic extent")
    n = conc(a.zshape[0])
    out = z3.RealVal(1) if a._dtype == "float" else z3.IntVal(1)
    first = True
    for i in range(n):
        v = a.get((z3.IntVal(i),))
        out = v if first else out * v
        first = False
    return T(out)
