"""Execution context of one symbolic path: hypotheses, obligations, branch decisions.

One `Ctx` is one run of a contract harness along one vector of branch decisions.
Symbolic branches are explored by deterministic re-execution (`explore`): the first
time a symbolic condition is met beyond the prescribed decisions, the feasible outcome
`True` is taken and the alternative decision vector is queued.
"""

from __future__ import annotations

import z3

_CUR: list["Ctx"] = []


class Undecided(Exception):
    """The executor met something it does not model; never mapped to a violation."""


class InstanceTimeout(BaseException):
    """wall-clock limit of one contract instance (raised from a SIGALRM handler); not an Exception so that it
    is never mistaken for an outcome of the code under contract"""


class Infeasible(Exception):
    """The current path condition is unsatisfiable; the path is dropped."""


def cur() -> "Ctx":
    if not _CUR:
        raise Undecided("symbolic value used outside an execution context")
    return _CUR[-1]


def has_ctx() -> bool:
    return bool(_CUR)


def _mentions(e, vs):
    ids = {v.get_id() for v in vs}
    seen = set()
    todo = [e]
    while todo:
        x = todo.pop()
        i = x.get_id()
        if i in seen:
            continue
        seen.add(i)
        if i in ids:
            return True
        todo.extend(x.children())
    return False


class Obligation:
    __slots__ = ("name", "kind", "nhyps", "goal", "meta", "scope")

    def __init__(self, name, kind, nhyps, goal, meta=None, scope="per_structure"):
        self.name = name
        self.kind = kind  # post | pre | safety | frame | inv-init | inv-pres | lemma | raises
        self.nhyps = nhyps
        self.goal = goal
        self.meta = meta or {}
        self.scope = scope


class Ctx:
    BRANCH_TIMEOUT_MS = 3000

    def __init__(self, decisions=()):
        self.decisions = list(decisions)
        self.taken: list[bool] = []
        self.pending: list[list[bool]] = []
        self.hyps: list[z3.BoolRef] = []
        self.hyp_tags: list[str] = []
        self.obls: list[Obligation] = []
        self.counter = 0
        self.trusted: set[str] = set()
        self.notes: list[str] = []
        self.events: list = []  # ghost events (key usage, frame writes ...)
        self.memo: dict = {}  # per-path caches (row-major bijections, mask selectors ...)
        self.scope_default = "per_structure"
        self.binders: list = []  # (z3 var, range condition) of enclosing vmap index variables

    # ---------------------------------------------------------------- vmap binders
    def push_binder(self, var, n):
        """var ranges over [0, n)"""
        self.binders.append((var, n))

    def pop_binder(self):
        self.binders.pop()

    def _close(self, f):
        """universally close a formula over the enclosing vmap index variables"""
        if not self.binders:
            return f
        vs = [v for v, _ in self.binders]
        ns = [n for _, n in self.binders]
        from .stubs.jnp_impl import _forall

        return _forall(vs, z3.Implies(z3.And(*[z3.And(v >= 0, v < n) for v, n in self.binders]), f), dims=ns)

    # ---------------------------------------------------------------- names
    def fresh(self, base: str) -> str:
        self.counter += 1
        return f"{base}!{self.counter}"

    # ---------------------------------------------------------------- logic
    def assume(self, f, tag="assume"):
        if isinstance(f, bool):
            if not f:
                raise Infeasible()
            return
        self.hyps.append(self._close(f))
        self.hyp_tags.append(tag)

    def prove(self, name, goal, kind="post", meta=None, scope=None):
        if isinstance(goal, bool):
            goal = z3.BoolVal(goal)
        self.obls.append(
            Obligation(name, kind, len(self.hyps), self._close(goal), meta, scope or self.scope_default)
        )

    def prove_then_assume(self, name, goal, kind="safety", meta=None):
        """Record a side condition and continue under it (standard for safety VCs)."""
        if isinstance(goal, bool):
            if goal:
                return
            goal = z3.BoolVal(False)
        g = z3.simplify(goal)
        if z3.is_true(g):
            return
        self.prove(name, goal, kind, meta)
        self.assume(goal, tag="after:" + name)

    def _feasible(self, cond) -> bool:
        s = z3.Solver()
        s.set("timeout", self.BRANCH_TIMEOUT_MS)
        for h in self.hyps:
            s.add(h)
        s.add(cond)
        return s.check() != z3.unsat

    def branch(self, cond) -> bool:
        """Decide a symbolic condition (z3 Bool) on this path."""
        c = z3.simplify(cond)
        if z3.is_true(c):
            return True
        if z3.is_false(c):
            return False
        if self.binders and _mentions(c, [v for v, _ in self.binders]):
            raise Undecided(
                "Python control flow on a value that depends on a vmapped index "
                "(TracerBoolConversionError in real jax)"
            )
        i = len(self.taken)
        if i < len(self.decisions):
            d = self.decisions[i]
        else:
            can_t = self._feasible(cond)
            can_f = self._feasible(z3.Not(cond))
            if can_t and can_f:
                d = True
                self.pending.append(self.taken + [False])
            elif can_t:
                d = True
            elif can_f:
                d = False
            else:
                raise Infeasible()
            self.decisions.append(d)
        self.taken.append(d)
        self.assume(cond if d else z3.Not(cond), tag="branch")
        return d

    def __enter__(self):
        _CUR.append(self)
        return self

    def __exit__(self, *exc):
        _CUR.pop()
        return False


def explore(run, max_paths=256):
    """Run `run(ctx)` along every feasible decision vector. Returns the list of Ctx."""
    work: list[list[bool]] = [[]]
    done: list[Ctx] = []
    while work:
        d = work.pop()
        ctx = Ctx(d)
        try:
            with ctx:
                run(ctx)
        except Infeasible:
            ctx.infeasible = True
            work.extend(ctx.pending)
            continue
        ctx.infeasible = False
        done.append(ctx)
        work.extend(ctx.pending)
        if len(done) > max_paths:
            raise Undecided(f"more than {max_paths} paths")
    return done
