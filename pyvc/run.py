"""Engine: run one contract instance (proof, then counterexample search + native replay on
failure) and aggregate instances per property."""

from __future__ import annotations

import itertools
import json
import os
import random
import time
import traceback
from fractions import Fraction

import z3

from . import vc
from .contract import REGISTRY, K, NativeFailure, Raised, SkipInstance
from .ctx import Ctx, Infeasible, Undecided, explore
from .exec import World
from .native import NativeBackend
from .values import infinity_axioms

REPO_SRC = os.environ.get("PYVC_REPO_SRC", "/repo/src")
OUT_DIR = os.path.join(os.path.dirname(os.path.dirname(os.path.abspath(__file__))), "out")


def _base_axioms():
    from .stubs.jax_impl import math_axioms

    return infinity_axioms() + math_axioms()


def inst_label(inst):
    if inst is None:
        return ""
    if hasattr(inst, "label"):
        return inst.label
    return repr(inst)


def _run_paths(world, con, inst, mode, sizes=None):
    """explore all paths of the contract body in a symbolic mode; returns (list of Ctx, K of last run)"""
    holder = {}

    def run(ctx):
        from . import logic as _L

        _L._ID[0] = 0  # deterministic bound-variable names: the same VC text on every run
        for a in _base_axioms():
            ctx.assume(a, tag="base")
        k = K(world, con, inst, mode=mode, sizes=sizes)
        holder["k"] = k
        ctx.scope_default = con.scope
        con.body(k, inst) if inst is not None else con.body(k)
        ctx.k = k

    ctxs = explore(run)
    return ctxs, holder.get("k")


def _model_inputs(model, k):
    """concrete inputs (by contract input name) from a z3 model of a bounded run"""
    out = {}
    for name, spec in k.sym_inputs.items():
        kind = spec[0]
        if kind == "scalar":
            out[name] = _pyval(model.eval(spec[1], model_completion=True))
        else:
            f, shape = spec[1], spec[2]
            vals = []
            for ix in itertools.product(*[range(n) for n in shape]):
                vals.append(_pyval(model.eval(f(*[z3.IntVal(i) for i in ix]), model_completion=True)))
            out[name] = (vals, shape)
    return out


def _pyval(v):
    if z3.is_int_value(v):
        return v.as_long()
    if z3.is_rational_value(v):
        return float(Fraction(v.numerator_as_long(), v.denominator_as_long()))
    if z3.is_true(v):
        return True
    if z3.is_false(v):
        return False
    if z3.is_algebraic_value(v):
        return float(v.approx(20).as_fraction())
    raise Undecided(f"model value {v}")


def native_trial(world, con, inst, native, sizes=None, model=None, seed=0):
    """one run of the contract on the real code; returns (status, k) with status in
    ok | skip | fail | error"""
    k = K(world, con, inst, mode="native", sizes=sizes, model=model, rng=random.Random(seed), native=native)
    try:
        con.body(k, inst) if inst is not None else con.body(k)
    except SkipInstance:
        return "skip", k
    except Undecided as e:
        k.error = f"undecided in native mode: {e}"
        return "error", k
    except Exception as e:  # noqa: BLE001 - contract code failed natively: checker problem, reported as such
        k.error = traceback.format_exc(limit=8)
        return "error", k
    return ("fail" if k.failures else "ok"), k


def size_grid(size_names, max_total=40, span=3):
    names = [n for n, *_ in size_names]
    ranges = [range(lo, (lo + span) if hi is None else min(hi + 1, lo + span + 3)) for _, lo, hi in size_names]
    combos = sorted(itertools.product(*ranges), key=lambda c: (sum(c), c))
    return [dict(zip(names, c)) for c in combos[:max_total]]


def run_instance(cid, inst_index, tier, seed=0, repo_src=None, native_trials=0, prop=None):
    """Worker entry: prove one contract instance. Returns a JSON-able dict."""
    import contracts  # noqa: F401  (registers contracts)

    repo_src = repo_src or REPO_SRC
    con = REGISTRY[cid]
    insts = con.instances(tier)
    inst = insts[inst_index]
    label = inst_label(inst)
    t0 = time.time()
    res = {
        "cid": cid,
        "target": con.target,
        "instance": label,
        "scope": con.scope,
        "obligations": [],
        "trusted": [],
        "undecided": [],
        "violations": [],
        "checker_errors": [],
        "paths": 0,
        "solver_s": 0.0,
        "native_trials": 0,
        "covered": [],
    }
    world = World(repo_src)
    try:
        ctxs, k0 = _run_paths(world, con, inst, "sym")
    except Undecided as e:
        # outside the verifier's reach (library function without a contract stub, unsupported construct):
        # the bounded stand-in takes over -- the contract evaluated on the real code for sampled small inputs
        _bounded_fallback(world, con, inst, label, res, repo_src, seed, prop, f"{e}")
        res["wall_s"] = time.time() - t0
        return res
    except Exception:  # noqa: BLE001
        res["checker_errors"].append({"where": f"{cid}[{label}]", "trace": traceback.format_exc(limit=10)})
        res["wall_s"] = time.time() - t0
        return res
    res["paths"] = len(ctxs)
    trusted = set()
    failed = []
    nobl = 0
    for pi, ctx in enumerate(ctxs):
        trusted |= ctx.trusted
        # vacuity guard: the contract's own assumptions (requires, domains, library axioms, lemmas) must
        # not be contradictory.  Not part of it: arbitrary index tuples of `k.indices` (possibly empty
        # boxes) and side conditions that are assumed after having been recorded as obligations.
        nh = ctx.memo.get("first_index_hyp", len(ctx.hyps))
        core = [h for h, tg in zip(ctx.hyps[:nh], ctx.hyp_tags[:nh]) if tg != "branch" and not tg.startswith("after:")]
        if vc.contradictory(core):
            res["checker_errors"].append({"where": f"{cid}[{label}] path {pi}", "trace": "vacuous: the assumptions of the contract are contradictory"})
            continue
        withbr = [h for h, tg in zip(ctx.hyps[:nh], ctx.hyp_tags[:nh]) if not tg.startswith("after:")]
        if len(withbr) > len(core) and vc.contradictory(withbr):
            continue  # infeasible path (its feasibility query had timed out)
        for ob in ctx.obls:
            nobl += 1
            oid = f"{cid}#{ob.name}[{label}]" + (f"/p{pi}" if len(ctxs) > 1 else "")
            r = vc.discharge(ctx.hyps[: ob.nhyps], ob.goal)
            res["solver_s"] += r.secs
            rec = {"id": oid, "kind": ob.kind, "scope": ob.scope, "status": r.status, "backend": r.backend, "secs": round(r.secs, 4)}
            res["obligations"].append(rec)
            if r.status != "proved":
                failed.append((oid, ob, r, pi))
    # obligations left open (unknown, not refuted) get one more attempt with three times the budgets: verdicts
    # must not flip because the machine is busy (at most 8 per instance, so changed trees stay affordable)
    if failed:
        still, retried = [], 0
        for oid, ob, r, pi in failed:
            if r.status == "unknown" and retried < 8:
                retried += 1
                vc.SCALE = 3.0
                try:
                    r2 = vc.discharge(ctxs[pi].hyps[: ob.nhyps], ob.goal)
                finally:
                    vc.SCALE = 1.0
                res["solver_s"] += r2.secs
                if r2.status == "proved":
                    for rec in res["obligations"]:
                        if rec["id"] == oid:
                            rec.update(status="proved", backend=r2.backend + "/retry", secs=round(rec["secs"] + r2.secs, 4))
                    continue
            still.append((oid, ob, r, pi))
        failed = still
    bounded_clauses = set()
    for ctx in ctxs:
        bounded_clauses |= ctx.memo.get("bounded_clauses", set())
    res["bounded_clauses"] = sorted(f"{cid}#{b}[{label}]" for b in bounded_clauses)
    fps = {}
    for ctx in ctxs:
        for nm, texts in ctx.memo.get("fingerprints", {}).items():
            fps.setdefault(nm, set()).update(texts)
    res["fingerprints"] = {nm: sorted(t) for nm, t in fps.items()}
    if nobl == 0 and not bounded_clauses and not res["checker_errors"]:
        res["checker_errors"].append({"where": f"{cid}[{label}]", "trace": "no obligations generated"})
    if bounded_clauses and not native_trials:
        native_trials = 12  # bounded stand-in clauses are always exercised
    res["trusted"] = sorted(trusted)
    res["covered"] = sorted(f"{m}:{l}" for m, l in world.covered)

    native = NativeBackend(repo_src)
    if failed:
        from .ctx import InstanceTimeout

        try:
            _search_counterexamples(world, con, inst, label, k0, failed, res, native, seed, prop)
        except InstanceTimeout:
            # out of time while looking for a failing input: report what is established
            done_ids = {v["obligation"] for v in res["violations"]} | {u["obligation"] for u in res["undecided"]}
            for oid, ob, r, pi in failed:
                if oid in done_ids:
                    continue
                if r.status == "refuted":
                    path = write_replay(prop, con, inst, label, oid, {"obligation": ob.name, "sizes": {}, "inputs": {}, "failures": [], "solver_model": str(r.model)[:4000] if r.model is not None else r.reason, "how": "VC refuted by the solver; time limit reached while searching a native failing input"}, reproduced=False)
                    res["violations"].append({"obligation": oid, "name": ob.name, "status": r.status, "backend": r.backend, "reason": r.reason, "replay": path, "reproduced": False, "detail": "refuted"})
                else:
                    res["undecided"].append({"obligation": oid, "reason": f"solver: {r.status}; time limit reached during the counterexample search"})
    # CPython differential (thorough tier): contract vs real code on random small inputs
    if native_trials and not failed:
        bad = _differential(world, con, inst, k0, native, native_trials, seed)
        res["native_trials"] = native_trials
        for b in bad:
            if bounded_clauses and b.get("failures"):
                # a clause that is only checked by the bounded stand-in failed on the real code
                nm = b["failures"][0].split(":")[0]
                oid = f"{cid}#{nm}[{label}]"
                path = write_replay(prop, con, inst, label, oid, {"obligation": nm, "sizes": b.get("sizes"), "inputs": b["inputs"], "failures": b["failures"], "solver_model": "", "how": "bounded stand-in: sampled small inputs on the real code"}, reproduced=True)
                res["violations"].append({"obligation": oid, "name": nm, "status": "bounded-failed", "backend": "native", "reason": "", "replay": path, "reproduced": True, "detail": b["failures"]})
            else:
                res["checker_errors"].append({"where": f"{cid}[{label}]", "trace": "proof succeeded but the real code violates the contract natively: " + json.dumps(b, default=str)[:2000]})
    res["wall_s"] = time.time() - t0
    if os.environ.get("PYVC_PROFILE") and res["wall_s"] > 3:
        print(f"PROFILE {cid}[{label}] wall={res['wall_s']:.1f} solver={res['solver_s']:.1f} obligations={len(res['obligations'])} slowest={sorted(((o['secs'], o['id'].split('#')[1][:40]) for o in res['obligations']), reverse=True)[:3]}", flush=True)
    return res


def _bounded_fallback(world, con, inst, label, res, repo_src, seed, prop, reason):
    """bounded stand-in for a contract instance that could not be executed symbolically: up to 24 usable sampled
    small inputs (sizes as sampled by the contract's own generators; samples outside the contract's preconditions are skipped), at most 120 s.  A failing clause is a
    violation with the failing input; passing trials are reported as BOUNDED-ONLY and never counted as proved;
    no usable trial leaves the instance undecided."""
    cid = con.cid
    native = NativeBackend(repo_src)
    ok = 0
    t_start = time.time()
    budget = float(os.environ.get("PYVC_FALLBACK_BUDGET_S", "120"))
    for t in range(600):
        if ok >= 24 or time.time() - t_start > budget:
            break
        try:
            st, kn = native_trial(world, con, inst, native, sizes=None, seed=seed * 104729 + t)
        except Exception:  # noqa: BLE001
            st, kn = "error", None
        if st == "skip":
            continue
        if st == "fail":
            nm = kn.failures[0].split(":")[0]
            oid = f"{cid}#{nm}[{label}]"
            path = write_replay(prop, con, inst, label, oid, {"obligation": nm, "sizes": None, "inputs": kn.inputs, "failures": kn.failures, "solver_model": "", "how": f"bounded stand-in (symbolic execution undecided: {reason}): sampled small inputs on the real code"}, reproduced=True)
            res["violations"].append({"obligation": oid, "name": nm, "status": "bounded-failed", "backend": "native", "reason": reason, "replay": path, "reproduced": True, "detail": kn.failures})
            return
        if st == "error":
            res["undecided"].append({"obligation": f"{cid}[{label}]", "reason": f"{reason}; the bounded stand-in could not run the contract natively: {getattr(kn, 'error', '')[-300:]}"})
            return
        ok += 1
    if ok == 0:
        res["undecided"].append({"obligation": f"{cid}[{label}]", "reason": f"{reason}; no usable sampled input for the bounded stand-in"})
        return
    res["native_trials"] = ok
    res["bounded_fallback"] = [{"instance": f"{cid}[{label}]", "reason": reason, "trials": ok}]


def _differential(world, con, inst, k0, native, trials, seed):
    bad = []
    grid = size_grid(k0.size_names) if k0 and k0.size_names else [{}]
    done = 0
    for t in range(trials * 4):
        sizes = grid[t % len(grid)]
        st, k = native_trial(world, con, inst, native, sizes=sizes, seed=seed * 100003 + t)
        if st == "skip":
            continue
        done += 1
        if st == "fail":
            bad.append({"inputs": k.inputs, "failures": k.failures, "sizes": sizes})
            break
        if st == "error":
            bad.append({"inputs": k.inputs, "error": getattr(k, "error", "")})
            break
        if done >= trials:
            break
    return bad


def _search_counterexamples(world, con, inst, label, k0, failed, res, native, seed, prop):
    """Turn non-discharged obligations into (a) confirmed violations with a native replay,
    (b) refuted-without-input violations, or (c) undecided."""
    names_failed = {ob.name for _, ob, _, _ in failed}
    confirmed = None
    refuted_bounded = {}
    # (1) bounded quantifier-free re-runs -> definite models -> native replay
    grid = size_grid(k0.size_names) if k0 is not None and k0.size_names else [{}]
    tried_models = 0
    t_start = time.time()
    budget = float(os.environ.get("PYVC_CEX_BUDGET_S", "90"))
    for sizes in grid:
        if confirmed or tried_models >= 12 or time.time() - t_start > budget:
            break
        try:
            ctxs, kb = _run_paths(world, con, inst, "bounded", sizes=sizes)
        except (Undecided, Exception):  # noqa: BLE001
            continue
        tried_here = 0
        for ctx in ctxs:
            for ob in ctx.obls:
                if ob.name not in names_failed or tried_here >= 6 or time.time() - t_start > budget:
                    continue
                tried_here += 1
                # bounded VCs are quantifier-free: a counter-model, if any, is found quickly
                r = vc.discharge(ctx.hyps[: ob.nhyps], ob.goal, timeout_ms=4000, portfolio=False)
                res["solver_s"] += r.secs
                if r.status != "refuted" or r.model is None:
                    continue
                refuted_bounded.setdefault(ob.name, {"sizes": sizes, "model": str(r.model)[:4000]})
                tried_models += 1
                try:
                    minputs = _model_inputs(r.model, ctx.k)
                except Undecided:
                    continue
                model = {}
                for n, v in minputs.items():
                    model[n] = v[0] if isinstance(v, tuple) else v
                st, kn = native_trial(world, con, inst, native, sizes=sizes, model=model, seed=seed)
                if st == "fail":
                    confirmed = {"obligation": ob.name, "sizes": sizes, "inputs": kn.inputs, "failures": kn.failures, "solver_model": str(r.model)[:4000], "how": "z3 model of the bounded VC, replayed on the real code"}
                    break
            if confirmed:
                break
    # (2) random native search
    if not confirmed:
        for t in range(300):
            if time.time() - t_start > 2 * budget:
                break
            sizes = grid[t % len(grid)]
            st, kn = native_trial(world, con, inst, native, sizes=sizes, seed=seed * 7919 + t)
            if st == "fail":
                confirmed = {"obligation": kn.failures[0], "sizes": sizes, "inputs": kn.inputs, "failures": kn.failures, "solver_model": "", "how": "random small inputs on the real code after the VC failed"}
                break
            if st == "error":
                break
    for oid, ob, r, pi in failed:
        entry = {"obligation": oid, "name": ob.name, "status": r.status, "backend": r.backend, "reason": r.reason}
        if confirmed:
            path = write_replay(prop, con, inst, label, oid, confirmed, reproduced=True)
            res["violations"].append({**entry, "replay": path, "reproduced": True, "detail": confirmed["failures"]})
        elif r.status == "refuted" or ob.name in refuted_bounded:
            info = refuted_bounded.get(ob.name, {"sizes": {}, "model": str(r.model)[:4000] if r.model is not None else r.reason})
            path = write_replay(prop, con, inst, label, oid, {"obligation": ob.name, "sizes": info["sizes"], "inputs": {}, "failures": [], "solver_model": info["model"], "how": "VC refuted by the solver; no native failing input found"}, reproduced=False)
            res["violations"].append({**entry, "replay": path, "reproduced": False, "detail": "refuted"})
        else:
            res["undecided"].append({"obligation": oid, "reason": f"solver: {r.status} ({r.reason}); no counterexample found on bounded or random inputs"})


def write_replay(prop, con, inst, label, oid, info, reproduced):
    d = os.path.join(OUT_DIR, "replays", prop or "adhoc")
    os.makedirs(d, exist_ok=True)
    safe = "".join(ch if ch.isalnum() or ch in "-_." else "_" for ch in oid)[:150]
    path = os.path.join(d, safe + ".json")
    insts = con.instances("thorough")
    idx = None
    for i, x in enumerate(insts):
        if inst_label(x) == label:
            idx = i
            break
    doc = {
        "property": prop,
        "contract": con.cid,
        "target": con.target,
        "instance": label,
        "instance_index_thorough": idx,
        "failed_obligation": oid,
        "reproduced_on_real_code": reproduced,
        "sizes": info.get("sizes"),
        "inputs": info.get("inputs"),
        "native_failures": info.get("failures"),
        "how_found": info.get("how"),
        "verifier_output": info.get("solver_model"),
        "postcondition": con.doc,
    }
    with open(path, "w") as fh:
        json.dump(doc, fh, indent=1, default=str)
    return path


def replay(path, repo_src=None):
    """re-run a replay file on the real code of the working tree; exit status 1 if it reproduces"""
    import contracts  # noqa: F401

    doc = json.load(open(path))
    con = REGISTRY[doc["contract"]]
    insts = con.instances("thorough")
    inst = None
    for x in insts:
        if inst_label(x) == doc["instance"]:
            inst = x
    world = World(repo_src or REPO_SRC)
    native = NativeBackend(repo_src or REPO_SRC)
    if not doc.get("inputs"):
        print(f"replay: {doc['failed_obligation']} carries no concrete input (no-failing-input-found); verifier output:\n{doc.get('verifier_output')}")
        return 1
    st, k = native_trial(world, con, inst, native, sizes=doc.get("sizes"), model=doc["inputs"])
    print(f"replay {doc['failed_obligation']}: {st}; failed clauses: {k.failures}")
    return 1 if st == "fail" else 0
