"""Ground instances of real-analysis facts about exp / log (DESIGN 4.3).

Never asserted as quantified axioms (z3 diverges on them); a contract asks for the instances its
argument needs.  Each function corresponds to a Mathlib lemma (named in the trusted base); they are
assumptions of the proof, stated in lean/ExpLogFacts.lean.
"""

from __future__ import annotations

import z3

from .ctx import cur
from .stubs.jax_impl import _EXP, _LOG
from .values import lift, _to_real


def _r(x):
    return _to_real(lift(x))


def _assume(f, name):
    c = cur()
    c.assume(f, tag="math:" + name)
    c.trusted.add("Mathlib fact (ground instances): " + name)


def exp_pos(t):
    _assume(_EXP(_r(t)) > 0, "Real.exp_pos")


def log_exp(t):
    _assume(_LOG(_EXP(_r(t))) == _r(t), "Real.log_exp")


def exp_log(x):
    x = _r(x)
    _assume(z3.Implies(x > 0, _EXP(_LOG(x)) == x), "Real.exp_log (x > 0)")


def exp_mono(s, t):
    s, t = _r(s), _r(t)
    _assume(z3.And(z3.Implies(s < t, _EXP(s) < _EXP(t)), z3.Implies(s == t, _EXP(s) == _EXP(t)), z3.Implies(s > t, _EXP(s) > _EXP(t))), "Real.exp_lt_exp")


def log_mono(x, y):
    x, y = _r(x), _r(y)
    _assume(z3.Implies(z3.And(x > 0, y > 0), z3.And(z3.Implies(x < y, _LOG(x) < _LOG(y)), z3.Implies(x == y, _LOG(x) == _LOG(y)), z3.Implies(x > y, _LOG(x) > _LOG(y)))), "Real.log_lt_log")


def exp_add(s, t):
    s, t = _r(s), _r(t)
    _assume(_EXP(s + t) == _EXP(s) * _EXP(t), "Real.exp_add")


def log_mul(x, y):
    x, y = _r(x), _r(y)
    _assume(z3.Implies(z3.And(x > 0, y > 0), _LOG(x * y) == _LOG(x) + _LOG(y)), "Real.log_mul")
