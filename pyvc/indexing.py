"""numpy/jax indexing on `SymArray`: basic, integer-array (gather) and boolean-mask indexing."""

from __future__ import annotations

import z3

from .ctx import Undecided, cur
from .values import (
    SymArray,
    T,
    asarray,
    broadcast_shapes,
    conc,
    inrange,
    is_one,
    lex_lt,
    lift,
    project,
    same_dim,
    unwrap0,
    zdim,
)


# ----------------------------------------------------------------------------- boolean masks
class MaskSel:
    """Order isomorphism between [0, K) and the True positions of a mask in row-major order.

    K = number of True entries; sel(k) = index tuple of the k-th True; rank(idx) = number of
    True entries strictly before idx (= k for idx = sel(k)).
    """

    def __init__(self, mask: SymArray):
        ctx = cur()
        self.mask = mask
        r = mask.ndim
        nm = ctx.fresh("msel")
        self.K = z3.Int(nm + ".K")
        self.sel_f = [z3.Function(f"{nm}.sel{q}", z3.IntSort(), z3.IntSort()) for q in range(r)]
        self.rank_f = z3.Function(nm + ".rank", *([z3.IntSort()] * r), z3.IntSort())
        k, k2 = z3.Int(nm + ".k"), z3.Int(nm + ".k2")
        I = [z3.Int(f"{nm}.i{q}") for q in range(r)]
        sk = [f(k) for f in self.sel_f]
        sk2 = [f(k2) for f in self.sel_f]
        shape = mask.zshape
        from .stubs.jnp_impl import _forall
        from .values import rowmajor

        N = rowmajor(shape).N
        ax = [
            self.K >= 0,
            self.K <= N,
            _forall(
                [k],
                z3.Implies(
                    z3.And(k >= 0, k < self.K),
                    z3.And(inrange(shape, sk), mask.get(sk), self.rank_f(*sk) == k),
                ),
                patterns=[z3.MultiPattern(*sk)] if r > 1 else [sk[0]],
                dims=[N],
            ),
            _forall(
                I,
                z3.Implies(
                    z3.And(inrange(shape, I), mask.get(I)),
                    z3.And(
                        self.rank_f(*I) >= 0,
                        self.rank_f(*I) < self.K,
                        *[self.sel_f[q](self.rank_f(*I)) == I[q] for q in range(r)],
                    ),
                ),
                patterns=[self.rank_f(*I)],
                dims=shape,
            ),
            _forall(
                [k, k2],
                z3.Implies(
                    z3.And(k >= 0, k < k2, k2 < self.K),
                    lex_lt(sk, sk2),
                ),
                patterns=[z3.MultiPattern(*(sk + sk2))],
                dims=[N, N],
            ),
        ]
        for a in ax:
            ctx.assume(a, tag="mask-select")
        ctx.trusted.add("boolean-mask selection (k-th True in row-major order)")

    def sel(self, k):
        return [f(lift(k)) for f in self.sel_f]

    def rank(self, idx):
        return self.rank_f(*[lift(i) for i in idx])


def mask_selector(mask: SymArray) -> MaskSel:
    ctx = cur()
    memo = ctx.memo.setdefault("masksel", {})
    key = id(getattr(mask, "_mask_identity", mask))
    hit = memo.get(key)
    if hit is None:
        hit = (MaskSel(mask), mask)  # keep the mask alive so that id() stays unique
        memo[key] = hit
    return hit[0]


# ----------------------------------------------------------------------------- getitem
def _norm_key(a: SymArray, key):
    if not isinstance(key, tuple):
        key = (key,)
    key = list(key)
    if any(k is Ellipsis for k in key):
        i = key.index(Ellipsis)
        n_real = sum(1 for k in key if k is not None and k is not Ellipsis)
        # boolean arrays consume several axes
        key[i : i + 1] = [slice(None)] * (a.ndim - n_real)
    return key


def getitem(a: SymArray, key):
    key = _norm_key(a, key)
    # single boolean mask covering leading axes
    if len(key) == 1 and isinstance(key[0], SymArray) and key[0]._dtype == "bool" and key[0].ndim >= 1:
        return _mask_get(a, key[0])
    # normalise items
    items = []
    for k in key:
        if isinstance(k, (list, tuple)):
            k = asarray(list(k))
        if isinstance(k, SymArray) and k.ndim == 0:
            k = T(k.get(()))
        if isinstance(k, SymArray) and k._dtype == "bool":
            raise Undecided("boolean mask combined with other indices")
        items.append(k)
    n_consumed = sum(1 for k in items if k is not None)
    if n_consumed > a.ndim:
        raise IndexError("too many indices for array")
    items += [slice(None)] * (a.ndim - n_consumed)

    adv_pos = [p for p, k in enumerate(items) if isinstance(k, SymArray)]
    has_adv = bool(adv_pos)
    # integer scalars take part in advanced indexing (numpy rule) only for placement purposes
    if has_adv:
        part = [p for p, k in enumerate(items) if isinstance(k, (SymArray, int, T)) and not isinstance(k, bool)]
        adjacent = part == list(range(part[0], part[-1] + 1))
        bshape = broadcast_shapes([items[p]._shape for p in adv_pos])
    else:
        adjacent, bshape = True, ()
    nb = len(bshape)

    # build result axes description: list of ("adv",) once, ("slice", axis, start, step, n), ("new",)
    out_axes = []
    src = []  # per source axis: how to compute its index from the result index
    axis = 0
    adv_inserted = False
    for p, k in enumerate(items):
        if k is None:
            out_axes.append(("new",))
            continue
        n = a._shape[axis]
        if isinstance(k, bool):
            raise Undecided("boolean scalar index")
        if isinstance(k, (int, T)) or isinstance(k, z3.ExprRef):
            if isinstance(k, int):
                e = z3.IntVal(k) if k >= 0 else n + k
            else:
                e = lift(k)
            src.append(("const", e))
            if has_adv and adjacent and not adv_inserted and p >= (part[0] if has_adv else 0):
                pass
        elif isinstance(k, slice):
            start, stop, step = k.start, k.stop, k.step
            if step not in (None, 1):
                raise Undecided("slice with a step")
            s = _slice_bound(start, n, 0)
            e = _slice_bound(stop, n, None)
            if e is None:
                e = n
            ln = z3.simplify(e - s)
            src.append(("slice", len(out_axes), s))
            out_axes.append(("slice", ln))
        elif isinstance(k, SymArray):
            if adjacent and not adv_inserted:
                out_axes.append(("adv",))
                adv_inserted = True
            src.append(("adv", k))
        else:
            raise Undecided(f"index of type {type(k).__name__}")
        axis += 1
    if has_adv and not adjacent:
        out_axes.insert(0, ("adv",))
        # shift slice references
        src = [("slice", s[1] + 1, s[2]) if s[0] == "slice" else s for s in src]

    # compute result shape and positions
    shape = []
    pos_of = {}
    for i, ax in enumerate(out_axes):
        pos_of[i] = len(shape)
        if ax[0] == "new":
            shape.append(z3.IntVal(1))
        elif ax[0] == "slice":
            shape.append(ax[1])
        else:
            shape.extend(bshape)
    adv_at = next((pos_of[i] for i, ax in enumerate(out_axes) if ax[0] == "adv"), None)

    def get(idx):
        bidx = tuple(idx[adv_at : adv_at + nb]) if adv_at is not None else ()
        srcidx = []
        for s in src:
            if s[0] == "const":
                srcidx.append(s[1])
            elif s[0] == "slice":
                srcidx.append(idx[pos_of[s[1]]] + s[2])
            else:
                k = s[1]
                srcidx.append(k.get(project(bidx, k._shape, nb)))
        return a.get(tuple(srcidx))

    return unwrap0(SymArray(tuple(shape), get, a._dtype))


def _slice_bound(b, n, default):
    if b is None:
        return z3.IntVal(default) if default is not None else None
    if isinstance(b, int):
        if b >= 0:
            cn = conc(n)
            if cn is not None and b > cn:
                return z3.IntVal(cn)
            return z3.IntVal(b)
        return n + b
    return lift(b)


def _mask_get(a: SymArray, mask: SymArray):
    r = mask.ndim
    for q in range(r):
        sd = same_dim(a._shape[q], mask._shape[q])
        if sd is False:
            raise IndexError("boolean index did not match indexed array")
        if sd is None:
            cur().prove_then_assume("mask-shape", a._shape[q] == mask._shape[q], "safety")
    ms = mask_selector(mask)
    shape = (ms.K, *a._shape[r:])

    def get(idx):
        return a.get(tuple(ms.sel(idx[0])) + tuple(idx[1:]))

    out = SymArray(shape, get, a._dtype)
    out.from_mask = (mask, ms)
    _row_selection_lemma(a, mask, ms, out)
    return out


def _row_selection_lemma(a, mask, ms_rows, out):
    """Counting lemma (assumed, DESIGN 4.3): if R = M[F] with F = M.any(over the trailing axes), i.e. only
    rows that are entirely False are dropped, then R and M have the same True entries in the same
    row-major order: K(R) = K(M) and the p-th True of R is (rank_F(s), c) for the p-th True (s, c) of M."""
    prov = getattr(mask, "any_of", None)
    if prov is None or a._dtype != "bool":
        return
    src, red = prov
    if getattr(src, "_mask_identity", src) is not getattr(a, "_mask_identity", a):
        return
    r = mask.ndim
    if tuple(red) != tuple(range(r, a.ndim)):
        return
    ctx = cur()
    msM = mask_selector(a)
    # the selector of R is *defined* from the selector of M (no new symbols): K(R) = K(M),
    # sel_R(p) = (rank_F(sel_M(p)_S), sel_M(p)_C), rank_R(r, c) = rank_M(sel_F(r), c)
    msR = MaskSel.__new__(MaskSel)
    msR.mask = out
    msR.K = msM.K
    msR.sel_f = None
    msR.rank_f = None
    msR.sel = lambda kk: [ms_rows.rank(msM.sel(kk)[:r])] + list(msM.sel(kk)[r:])
    msR.rank = lambda idx: msM.rank(list(ms_rows.sel(idx[0])) + [lift(i) for i in idx[1:]])
    out._mask_identity = out
    ctx.memo.setdefault("masksel", {})[id(out)] = (msR, out)
    p = z3.Int(ctx.fresh("rowsel.p"))
    selM = msM.sel(p)
    from .stubs.jnp_impl import _forall
    from .values import rowmajor

    N = rowmajor(a.zshape).N
    # the row of a True entry is a row with some True entry (a consequence of `any`, stated for triggers)
    ctx.assume(_forall([p], z3.Implies(z3.And(p >= 0, p < msM.K), mask.get(tuple(selM[:r]))), patterns=[z3.MultiPattern(*selM)] if len(selM) > 1 else [selM[0]], dims=[N]), tag="counting-lemma")
    ctx.trusted.add("counting lemma (assumed; cross-checked natively): dropping all-False rows preserves the row-major enumeration of True entries")


# ----------------------------------------------------------------------------- setitem (numpy arrays only)
def setitem(a: SymArray, key, value):
    if isinstance(key, SymArray) and key._dtype == "bool":
        mask = key
        if mask.ndim != a.ndim:
            raise Undecided("mask assignment with lower-rank mask")
        ms = mask_selector(mask)
        old = a._get
        v = asarray(value)
        if v.ndim == 0:
            ve = v.get(())
            new = lambda idx: z3.If(mask.get(idx), ve, old(idx))
        elif v.ndim == 1:
            sd = same_dim(v._shape[0], ms.K)
            if sd is not True:
                cur().prove_then_assume("mask-assign-length", v._shape[0] == ms.K, "safety")
            new = lambda idx: z3.If(mask.get(idx), v.get((ms.rank(idx),)), old(idx))
        else:
            raise Undecided("mask assignment of an n-d value")
        a._get = new
        a._cache = {}
        return
    raise Undecided("array assignment other than by boolean mask")
