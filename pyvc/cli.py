"""./check <ID> --tier quick|thorough   |   ./check replay <path>   |   ./check list"""

from __future__ import annotations

import argparse
import json
import multiprocessing as mp
import os
import re
import sys
import time

ROOT = os.path.dirname(os.path.dirname(os.path.abspath(__file__)))
sys.path.insert(0, ROOT)

EXIT_OK, EXIT_VIOLATION, EXIT_UNDECIDED, EXIT_ERROR = 0, 1, 2, 3


def _worker(job):
    cid, idx, tier, seed, prop, trials = job
    import logging

    from pyvc.run import run_instance

    logging.disable(logging.CRITICAL)
    import signal

    from pyvc.ctx import InstanceTimeout as _InstanceTimeout

    def _alarm(signum, frame):
        raise _InstanceTimeout()

    limit = int(os.environ.get("PYVC_INSTANCE_TIMEOUT_S", "600"))
    signal.signal(signal.SIGALRM, _alarm)
    signal.alarm(limit)
    try:
        return run_instance(cid, idx, tier, seed=seed, prop=prop, native_trials=trials)
    except _InstanceTimeout:
        return {"cid": cid, "instance": str(idx), "obligations": [], "trusted": [], "undecided": [{"obligation": f"{cid}[instance {idx}]", "reason": f"contract instance exceeded {limit} s"}], "violations": [], "checker_errors": [], "paths": 0, "solver_s": 0.0, "wall_s": float(limit), "scope": "?", "target": cid, "native_trials": 0, "covered": []}
    except Exception:  # noqa: BLE001
        import traceback

        return {"cid": cid, "instance": str(idx), "obligations": [], "trusted": [], "undecided": [], "violations": [], "checker_errors": [{"where": cid, "trace": traceback.format_exc(limit=10)}], "paths": 0, "solver_s": 0.0, "wall_s": 0.0, "scope": "?", "target": cid, "native_trials": 0, "covered": []}
    finally:
        signal.alarm(0)


def load_known():
    p = os.path.join(ROOT, "known_findings.json")
    if not os.path.exists(p):
        return []
    return json.load(open(p)).get("findings", [])


def is_known(known, prop, viol):
    for f in known:
        if f.get("status", "open") != "open":
            continue
        if f["property"] != prop:
            continue
        if re.search(f["obligation_regex"], viol["obligation"]):
            return f
    return None


def run_jobs(cids, tier, seed, prop, trials):
    from pyvc.contract import REGISTRY

    jobs = []
    for cid in cids:
        n = len(REGISTRY[cid].instances(tier))
        for i in range(n):
            jobs.append((cid, i, tier, seed, prop, trials))
    workers = min(int(os.environ.get("PYVC_JOBS", "16")), max(1, len(jobs)))
    ctx = mp.get_context("fork")
    with ctx.Pool(workers, maxtasksperchild=8) as pool:
        return jobs, pool.map(_worker, jobs, chunksize=1)


def sub_main(prop, tier, seed, cids):
    """child process of a hash-seed re-run: prints the raw results as JSON"""
    import contracts  # noqa: F401

    _, results = run_jobs(cids, tier, seed, prop, 0)
    for r in results:
        r.pop("covered", None)
    sys.stdout.write("\nPYVC-SUB-RESULTS " + json.dumps(results, default=str) + "\n")
    return 0


def choose_hash_seeds(seeds, tier, extra=2):
    """add up to `extra` seeds so that every name set of the skeleton family (states, choices, functions,
    stochastic transitions) is iterated in at least two different orders among the chosen seeds, where any
    seed in 1..40 achieves that; purely a coverage heuristic, deterministic for a given family"""
    import subprocess

    from contracts.skeletons import skeletons

    probes = set()
    for sk in skeletons(tier):
        for names in ([n for n, _ in sk.states], [n for n, _ in sk.choices], [n for n, _, r in sk.functions if r == "stoch"], [n for n, _, _ in sk.functions], sk.variables):
            if len(names) >= 2:
                probes.add(tuple(sorted(names)))
    probes = sorted(probes)
    code = "import sys,json; print(json.dumps([list(set(p)) for p in json.loads(sys.argv[1])]))"

    def orders(sd):
        r = subprocess.run([sys.executable, "-c", code, json.dumps(probes)], env=dict(os.environ, PYTHONHASHSEED=str(sd)), capture_output=True, text=True)
        return [tuple(x) for x in json.loads(r.stdout)]

    chosen = list(seeds)
    seen = [set() for _ in probes]
    for sd in chosen:
        for i, o in enumerate(orders(sd)):
            seen[i].add(o)
    for sd in range(1, 41):
        if len(chosen) >= len(seeds) + extra or all(len(x) >= 2 for x in seen):
            break
        if sd in chosen:
            continue
        o = orders(sd)
        gain = sum(1 for i, x in enumerate(seen) if len(x) < 2 and o[i] not in x)
        if gain:
            chosen.append(sd)
            for i, oo in enumerate(o):
                seen[i].add(oo)
    return chosen


def hash_seed_reruns(prop, tier, seed, spec):
    """re-prove the listed contracts in fresh processes with other PYTHONHASHSEED values (C09: set
    iteration orders must not matter); obligation ids get a suffix naming the hash seed"""
    import subprocess

    hs = spec.get("hash_seeds")
    if not hs:
        return []
    out = []
    seeds = hs.get("seeds_thorough", hs["seeds"]) if tier == "thorough" else hs["seeds"]
    seeds = choose_hash_seeds(seeds, tier)
    procs = []
    for s_ in seeds:
        env = dict(os.environ, PYTHONHASHSEED=str(s_), PYVC_JOBS=str(max(2, 16 // len(seeds))))
        procs.append((s_, subprocess.Popen([sys.executable, "-m", "pyvc.cli", "_sub", prop, "--tier", tier, "--only", ",".join(hs["contracts"])], cwd=ROOT, env=env, stdout=subprocess.PIPE, stderr=subprocess.DEVNULL, text=True)))
    for s_, p_ in procs:
        txt, _ = p_.communicate()
        line = [ln for ln in txt.splitlines() if ln.startswith("PYVC-SUB-RESULTS ")]
        if not line:
            out.append({"cid": "hash-seed-rerun", "target": "hash-seed-rerun", "instance": f"PYTHONHASHSEED={s_}", "obligations": [], "trusted": [], "undecided": [], "violations": [], "checker_errors": [{"where": f"PYTHONHASHSEED={s_}", "trace": "sub-process produced no results"}], "solver_s": 0.0, "scope": "?"})
            continue
        for r in json.loads(line[0][len("PYVC-SUB-RESULTS "):]):
            tag = f"@PYTHONHASHSEED={s_}"
            for o in r["obligations"]:
                o["id"] += tag
            for v in r["violations"]:
                v["obligation"] += tag
            for u in r["undecided"]:
                u["obligation"] += tag
            out.append(r)
    return out


def compare_fingerprints(base, reruns):
    """(C09) results recorded with `k.fingerprint` must be the same terms under every hash seed: one
    obligation per recorded name and contract instance, discharged by comparing the texts of all runs"""
    runs = {}
    for r in list(base) + list(reruns):
        for nm, texts in (r.get("fingerprints") or {}).items():
            runs.setdefault((r["cid"], r["instance"], r.get("target"), r.get("scope", "?")), {}).setdefault(nm, []).append(tuple(texts))
    out = []
    for (cid, inst, target, scope), names in runs.items():
        rec = {"cid": cid, "target": target, "instance": inst, "scope": scope, "obligations": [], "trusted": [], "undecided": [], "violations": [], "checker_errors": [], "solver_s": 0.0}
        for nm, seen in names.items():
            if len(seen) < 2:
                continue
            oid = f"{cid}#same-under-every-hash-seed[{nm}][{inst}]"
            same = all(x == seen[0] for x in seen)
            rec["obligations"].append({"id": oid, "kind": "post", "scope": scope, "status": "proved" if same else "refuted", "backend": "term-comparison", "secs": 0.0})
            if not same:
                path = os.path.join(ROOT, "out", "replays", "hash-seeds", re.sub(r"[^A-Za-z0-9_.-]+", "_", oid)[:150] + ".json")
                os.makedirs(os.path.dirname(path), exist_ok=True)
                with open(path, "w") as fh:
                    json.dump({"contract": cid, "target": target, "instance": inst, "failed_obligation": oid, "reproduced_on_real_code": False, "inputs": None, "verifier_output": {"terms_per_run": [list(x) for x in seen], "note": "the recorded result differs between runs under different PYTHONHASHSEED values"}}, fh, indent=1)
                rec["violations"].append({"obligation": oid, "name": nm, "status": "refuted", "backend": "term-comparison", "reason": "differs between hash seeds", "replay": path, "reproduced": False, "detail": "refuted"})
        if rec["obligations"]:
            out.append(rec)
    return out


def check_property(prop, tier, seed):
    import contracts  # noqa: F401
    from props import PROPS
    from pyvc.contract import REGISTRY

    t0 = time.time()
    spec = PROPS[prop]
    cids = [c for c in spec["contracts"] if c in REGISTRY]
    missing = [c for c in spec["contracts"] if c not in REGISTRY]
    if missing:
        print(f"CHECKER-ERROR: contracts not registered: {missing}")
        return EXIT_ERROR
    trials = spec.get("native_trials", 8) if tier == "thorough" else spec.get("native_trials_quick", 0)
    jobs, results = run_jobs(cids, tier, seed, prop, trials)
    reruns = hash_seed_reruns(prop, tier, seed, spec)
    results = results + reruns + compare_fingerprints(results, reruns)

    known = load_known()
    obligations = discharged = 0
    by_scope, by_backend = {}, {}
    solver_s = 0.0
    trusted, undecided, violations, errors, known_hits = set(), [], [], [], []
    samples = []
    functions = {}
    covered = set()
    native_total = 0
    bounded = set()
    fallbacks = []
    for r in results:
        fallbacks += r.get("bounded_fallback", [])
        bounded |= set(r.get("bounded_clauses", []))
        trusted |= set(r["trusted"])
        solver_s += r["solver_s"]
        covered |= set(r.get("covered", []))
        native_total += r.get("native_trials", 0)
        functions.setdefault(r["target"], 0)
        functions[r["target"]] += 1
        errors += r["checker_errors"]
        viol_names = {v["obligation"]: v for v in r["violations"]}
        for o in r["obligations"]:
            if os.environ.get("PYVC_SLOW") and o["secs"] > float(os.environ["PYVC_SLOW"]):
                print("SLOW", o["id"], o["status"], o["backend"], o["secs"])
            v = viol_names.get(o["id"])
            if v is not None and is_known(known, prop, v):
                continue  # counted under known findings, not as an obligation of the claim
            obligations += 1
            if o["status"] == "proved":
                discharged += 1
                by_scope[o["scope"]] = by_scope.get(o["scope"], 0) + 1
                by_backend[o["backend"]] = by_backend.get(o["backend"], 0) + 1
                if len(samples) < 6 and o["kind"] == "post" and (len(samples) == 0 or samples[-1]["id"].split("#")[0] != o["id"].split("#")[0]):
                    samples.append({"id": o["id"], "kind": o["kind"], "scope": o["scope"], "backend": o["backend"], "secs": o["secs"]})
        for v in r["violations"]:
            f = is_known(known, prop, v)
            if f:
                known_hits.append((f, v))
            else:
                violations.append(v)
        undecided += r["undecided"]

    # thorough tier: the general forms of the assumed exp/log, finite-sum and counting facts are re-checked
    # against Mathlib (lean/Facts.lean); the instantiation of these schemas in Python stays trusted
    if tier == "thorough" and spec.get("lean"):
        import subprocess

        lf = os.path.join(ROOT, "lean", "Facts.lean")
        n_ex = sum(1 for ln in open(lf) if ln.startswith("example"))
        try:
            pr = subprocess.run(["lean", lf], capture_output=True, text=True, timeout=1500)
            ok = pr.returncode == 0 and "error" not in (pr.stdout + pr.stderr)
        except (OSError, subprocess.TimeoutExpired) as e:  # noqa: PERF203
            ok, pr = False, None
        if ok:
            obligations += n_ex
            discharged += n_ex
            by_backend["lean-4.33/Mathlib"] = n_ex
            by_scope["forall"] = by_scope.get("forall", 0) + n_ex
        else:
            errors.append({"where": "lean/Facts.lean", "trace": (pr.stdout + pr.stderr)[:2000] if pr else "lean did not run"})

    printed = set()
    for f, v in known_hits:
        key = f["id"]
        if key in printed:
            continue
        printed.add(key)
        print(f"KNOWN-FINDING: property={prop} {f['what']}")
    for v in violations:
        tail = "" if v.get("reproduced") else " no-failing-input-found"
        print(f"VIOLATION property={prop} replay={v['replay']} obligation={v['obligation']}{tail}" if not tail else f"VIOLATION property={prop} replay={v['replay']} obligation={v['obligation']} no-failing-input-found")
    for u in undecided[:20]:
        print(f"UNDECIDED property={prop} obligation={u['obligation']} reason={u['reason'][:300]}")
    for fb in fallbacks[:20]:
        print(f"BOUNDED-ONLY property={prop} instance={fb['instance']} trials={fb['trials']} (not proved) reason={fb['reason'][:200]}")
    for e in errors[:10]:
        print(f"CHECKER-ERROR property={prop} where={e['where']}\n{e['trace'][:3000]}")

    wall = time.time() - t0
    expected = spec.get("expected", {}).get(tier)
    ev = {
        "property_id": prop,
        "tier": tier,
        "seed": seed,
        "level": "proof",
        "coverage": {
            "obligations": obligations,
            "discharged": discharged,
            "checker_cmd": f"./check {prop} --tier {tier}",
            "trusted_base": sorted(trusted) + spec.get("trusted_extra", []),
            "functions_under_contract": sorted(functions),
            "contract_instances": len(jobs),
            "by_scope": by_scope,
            "by_backend": by_backend,
            "solver_time_s": round(solver_s, 2),
            "structure_families": spec.get("families", {}).get(tier, ""),
            "undecided": undecided[:50],
            "known_findings": [f["id"] for f, _ in known_hits],
            "violations_reported": [v["obligation"] for v in violations][:50],
            "native_differential_trials": native_total,
            "bounded_standin_clauses_not_counted_as_proved": sorted(bounded)[:60],
            "instances_outside_the_verifier_checked_by_bounded_standin_only": fallbacks[:60],
            "source_lines_executed_symbolically": len(covered),
            "samples": samples or [{"note": "no discharged postcondition on this run"}],
            "clauses_not_decided": spec.get("not_decided", []),
            "explanation": spec.get("explanation", ""),
        },
        "assumptions": spec.get("assumptions", []),
        "wall_s": round(wall, 2),
        "violations": len(violations),
    }
    ev_dir = os.path.join(ROOT, "evidence")
    if os.environ.get("PYVC_REPO_SRC") and os.path.abspath(os.environ["PYVC_REPO_SRC"]) != "/repo/src":
        ev_dir = os.path.join(ROOT, "out", "evidence-of-scratch-trees")  # mutation / seed runs never touch evidence/
    os.makedirs(ev_dir, exist_ok=True)
    try:
        import jsonschema

        schema = json.load(open("/root/.vp/EVIDENCE.schema.json")) if os.path.exists("/root/.vp/EVIDENCE.schema.json") else None
        if schema and obligations and discharged:
            jsonschema.validate(ev, schema)
    except Exception as e:  # noqa: BLE001
        print(f"CHECKER-ERROR: evidence does not validate: {e}")
        errors.append({"where": "evidence", "trace": str(e)})
    with open(os.path.join(ev_dir, f"{prop}.json"), "w") as fh:
        json.dump(ev, fh, indent=1)
    print(f"{prop} [{tier}]: {discharged}/{obligations} obligations discharged over {len(jobs)} contract instances of {len(functions)} functions; solver {solver_s:.1f}s, wall {wall:.1f}s; undecided {len(undecided)}, bounded-only instances {len(fallbacks)}, violations {len(violations)}, known findings {len(printed)}")
    if violations:
        return EXIT_VIOLATION
    if errors:
        return EXIT_ERROR
    if (obligations == 0 and not fallbacks) or (expected and obligations < expected // 2 and not fallbacks):
        print(f"CHECKER-ERROR: vacuity guard: {obligations} obligations (expected about {expected})")
        return EXIT_ERROR
    if obligations == 0:
        print(f"NOTE property={prop}: no contract instance within the verifier's reach on this tree; bounded stand-in only ({len(fallbacks)} instances)")
    if undecided:
        return EXIT_UNDECIDED
    return EXIT_OK


def main(argv=None):
    ap = argparse.ArgumentParser()
    ap.add_argument("what")
    ap.add_argument("path", nargs="?")
    ap.add_argument("--tier", default=os.environ.get("VERIF_TIER", "quick"))
    ap.add_argument("--only", default="")
    args = ap.parse_args(argv)
    seed = int(os.environ.get("VERIF_SEED", "0") or 0)
    if args.what == "replay":
        from pyvc.run import replay

        return replay(args.path)
    if args.what == "_sub":
        return sub_main(args.path, args.tier if args.tier in ("quick", "thorough") else "quick", seed, [c for c in args.only.split(",") if c])
    if args.what == "list":
        import contracts  # noqa: F401
        from props import PROPS

        for p, s in PROPS.items():
            print(p, len(s["contracts"]), "contracts")
        return 0
    tier = args.tier if args.tier in ("quick", "thorough") else "quick"
    return check_property(args.what, tier, seed)


if __name__ == "__main__":
    sys.exit(main())
