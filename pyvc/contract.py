"""Sidecar contracts: registry and the harness object `K` handed to a contract body.

A contract body is ordinary Python over `k`:

    inputs      k.int / k.real / k.bool / k.array / k.opaque ...
    requires    k.requires(cond)
    call        out = k.call(*args, **kwargs)      (the real function of the working tree)
    ensures     k.ensures("name", cond)

The same body runs in three modes:
  * "sym"      symbolic sizes and contents -> VCs, the proof                     (unbounded)
  * "bounded"  concrete small sizes, symbolic contents -> quantifier-free VCs; used only to
               turn a failed/unknown VC into a definite model                   (counterexamples)
  * "native"   concrete numpy inputs, the real function run by CPython/JAX       (replay, differential)
"""

from __future__ import annotations

import itertools
import random
import traceback

import z3

from . import logic as L
from .ctx import Ctx, Infeasible, Undecided, cur
from .values import Inf, SymArray, T, conc, fresh_array, lift, pydim, zdim

REGISTRY: dict[str, "Contract"] = {}


class Contract:
    def __init__(self, cid, target, body, family, props, scope, doc):
        self.cid = cid
        self.target = target
        self.body = body
        self.family = family
        self.props = props
        self.scope = scope  # "forall" | "per_structure"
        self.doc = doc

    def instances(self, tier):
        if self.family is None:
            return [None]
        return list(self.family(tier))


def contract(target, cid=None, family=None, props=(), scope="per_structure"):
    def deco(fn):
        c = Contract(cid or target, target, fn, family, tuple(props), scope, (fn.__doc__ or "").strip())
        if c.cid in REGISTRY:
            raise RuntimeError(f"duplicate contract id {c.cid}")
        REGISTRY[c.cid] = c
        return fn

    return deco


class Raised:
    """exceptional result of k.call"""

    def __init__(self, exc):
        self.exc = exc
        self.type_name = type(exc).__name__

    def __repr__(self):
        return f"Raised({self.type_name}: {self.exc})"


_SYMBOLIC_TYPES = ("SymArray", "T", "MaskSel", "SymSeq", "SymList", "Opaque", "SymRange", "AbsFunc", "Closure", "DType", "Inf", "NaN")


def _verifier_limit(e):
    import re as _re

    if not isinstance(e, (TypeError, AttributeError, NotImplementedError)):
        return False
    msg = str(e)
    names = "|".join(_SYMBOLIC_TYPES)
    if isinstance(e, TypeError):
        return bool(_re.search(rf"(unsupported operand type|not supported between instances|bad operand type|object is not (subscriptable|iterable|callable)|object cannot be interpreted|has no len).*'({names})'", msg)) or bool(_re.search(rf"'({names})' object (is not|cannot|does not|has no)", msg))
    if isinstance(e, AttributeError):
        return bool(_re.search(rf"'({names})' object has no attribute", msg))
    return False


class SkipInstance(Exception):
    """native mode: the sampled input does not satisfy `requires`"""


class NativeFailure(Exception):
    def __init__(self, name, detail):
        super().__init__(name)
        self.name = name
        self.detail = detail


class K:
    def __init__(self, world, con: Contract, inst, mode="sym", sizes=None, model=None, rng=None, native=None):
        self.world = world
        self.con = con
        self.inst = inst
        self.mode = mode
        self.sizes = sizes or {}
        self.model = model
        self.rng = rng or random.Random(0)
        self.native = native  # NativeBackend
        self.inputs = {}  # name -> value (for replay files)
        self.size_names = []
        self.failures = []
        self.n_ensures = 0
        self.sym_inputs = {}  # name -> ("scalar", const) | ("array", func, concrete shape)

    # ------------------------------------------------------------------ inputs
    @property
    def symbolic(self):
        return self.mode in ("sym", "bounded")

    def int(self, name, ge=None, le=None, size=False):
        if size:
            self.size_names.append((name, ge if ge is not None else 0, le))
        if self.mode == "native" or (self.mode == "bounded" and size):
            if name in self.sizes:
                v = int(self.sizes[name])
            elif self.model is not None and name in self.model:
                v = int(self.model[name])
            else:
                lo = ge if ge is not None else -3
                hi = le if le is not None else (lo + 3 if size else 3)
                v = self.rng.randint(lo, hi)
            if (ge is not None and v < ge) or (le is not None and v > le):
                raise SkipInstance(name)
            self.inputs[name] = v
            return v
        v = z3.Int(name)
        self.sym_inputs[name] = ("scalar", v)
        if size or name == "seed":
            from . import vc as _vc

            _vc.HUB_NAMES.add(name)  # sizes occur in every axiom: they do not make hypotheses relevant
        c = cur()
        if ge is not None:
            c.assume(v >= ge, tag="domain")
        if le is not None:
            c.assume(v <= le, tag="domain")
        return T(v)

    def real(self, name):
        if self.mode == "native":
            if self.model is not None and name in self.model:
                import numpy as np

                v = float(np.float32(self.model[name]))
            else:
                v = self.rng.choice([-2.0, -1.0, -0.5, 0.0, 0.25, 0.5, 1.0, 1.5, 2.0, 3.0])
            self.inputs[name] = v
            return v
        self.sym_inputs[name] = ("scalar", z3.Real(name))
        if name.startswith(("p.", "p1.", "p2.")):
            from . import vc as _vc

            _vc.HUB_NAMES.add(name)
        return T(z3.Real(name))

    def bool(self, name):
        if self.mode == "native":
            v = bool(self.model[name]) if self.model is not None and name in self.model else self.rng.random() < 0.5
            self.inputs[name] = v
            return v
        self.sym_inputs[name] = ("scalar", z3.Bool(name))
        return T(z3.Bool(name))

    def array(self, name, shape, dtype, values=None, gen=None):
        """input array.  `values` / `gen(rng, shape) -> flat list` guide native sampling only."""
        if self.mode == "native":
            import numpy as np

            shp = tuple(int(d) for d in shape)
            if self.model is not None and name in self.model:
                # the dtype the real code will see (float32 unless x64 is enabled): exact comparisons in the
                # contract must use the same rounded values
                arr = np.array(self.model[name], dtype={"bool": bool, "int": np.int32, "float": np.float32}[dtype]).reshape(shp)
            else:
                n = 1
                for d in shp:
                    n *= d
                if gen is not None:
                    flat = list(gen(self.rng, shp))
                elif dtype == "bool":
                    flat = [self.rng.random() < 0.6 for _ in range(n)]
                elif dtype == "int":
                    flat = [self.rng.choice(values or [0, 1, 2, 3]) for _ in range(n)]
                else:
                    flat = [self.rng.choice(values or [-1.0, 0.0, 0.25, 0.5, 0.5, 1.0, 2.0]) for _ in range(n)]
                arr = np.array(flat, dtype={"bool": bool, "int": np.int32, "float": np.float32}[dtype]).reshape(shp)
            self.inputs[name] = arr.tolist()
            return arr
        ctx = cur()
        shape = tuple(zdim(d) for d in shape)
        if len(shape) == 0:
            from .values import sort_of

            cst = z3.Const(name, sort_of(dtype))
            self.sym_inputs[name] = ("scalar", cst)
            return SymArray((), lambda idx: cst, dtype)
        from .values import sort_of

        f = z3.Function(name, *([z3.IntSort()] * len(shape)), sort_of(dtype))
        cshape = [conc(d) for d in shape]
        if all(c is not None for c in cshape):
            self.sym_inputs[name] = ("array", f, cshape)
        return SymArray(shape, lambda idx: f(*idx), dtype)

    # ------------------------------------------------------------------ logic
    def requires(self, cond):
        if self.mode == "native":
            if not bool(cond):
                raise SkipInstance("requires")
            return
        cur().assume(L._b(cond), tag="requires")

    def assume(self, cond, tag="contract-assume"):
        self.requires(cond)

    def ensures(self, name, cond, kind="post", bounded=False):
        """`bounded=True`: a clause that is only checked natively on sampled small inputs (a bounded
        stand-in, never counted as proved); `cond` may then be a thunk evaluated in native mode only."""
        if bounded:
            if self.mode != "native":
                cur().memo.setdefault("bounded_clauses", set()).add(name)
                return
            cond = cond() if callable(cond) else cond
        self.n_ensures += 1
        if self.mode == "native":
            if not bool(cond):
                self.failures.append(name)
            return
        cur().prove(name, L._b(cond), kind, scope=self.con.scope)

    def lemma(self, name, cond):
        """an intermediate fact: an obligation like any other clause, and available as a hypothesis to the
        clauses that follow it (cut).  Native mode: checked like `ensures`."""
        if self.mode == "native":
            return self.ensures(name, cond)
        self.n_ensures += 1
        c = cur()
        g = L._b(cond)
        c.prove(name, g, "lemma", scope=self.con.scope)
        c.assume(c._close(g) if hasattr(c, "_close") else g, tag="after:" + name)

    def fingerprint(self, name, term):
        """record the (simplified) term of a result that must not depend on the interpreter's hash seed; the
        runner compares the recorded texts between runs under different PYTHONHASHSEED values (C09)"""
        if self.mode == "native":
            return
        e = term.e if isinstance(term, T) else term
        txt = str(z3.simplify(e)) if isinstance(e, z3.ExprRef) else repr(e)
        cur().memo.setdefault("fingerprints", {}).setdefault(name, set()).add(txt)

    def fail(self, name, detail=""):
        """an outcome the contract forbids on this path (e.g. an exception that `raises` does not allow)"""
        if self.mode == "native":
            self.failures.append(name + (": " + detail if detail else ""))
            return
        cur().prove(name, z3.BoolVal(False), "raises", meta={"detail": detail}, scope=self.con.scope)

    def indices(self, shape, name="b"):
        """fresh arbitrary in-range index tuple (symbolic) / every index tuple (concrete sizes)"""
        if self.mode == "native":
            yield from itertools.product(*[range(int(d)) for d in shape])
            return
        ctx = cur()
        ctx.memo.setdefault("first_index_hyp", len(ctx.hyps))
        vs = []
        for q, d in enumerate(shape):
            v = z3.Int(f"{name}{q}${self.n_ensures}.{ctx.counter}")
            ctx.counter += 1
            ctx.assume(z3.And(v >= 0, v < zdim(d)), tag="index")
            vs.append(T(v))
        yield tuple(vs)

    # ------------------------------------------------------------------ call
    def target(self):
        if self.mode == "native":
            return self.native.function(self.con.target)
        return self.world.function(self.con.target)

    def call(self, *args, **kwargs):
        return self.call_fn(self.target(), *args, **kwargs)

    def call_fn(self, f, *args, **kwargs):
        if self.mode == "native":
            return self.native.call(f, args, kwargs)
        try:
            return f(*args, **kwargs)
        except (Undecided, Infeasible):
            raise
        except RecursionError:
            raise Undecided("recursion limit") from None
        except Exception as e:  # an exceptional path of the code under contract
            if _verifier_limit(e):
                # an operator or method that the symbolic values do not implement: a limit of the verifier,
                # not an exception of the program
                raise Undecided(f"not supported by the symbolic values: {type(e).__name__}: {e}") from None
            e.pyvc_tb = traceback.format_exc(limit=6)
            return Raised(e)

    @property
    def ninf(self):
        return -Inf() if self.symbolic else float("-inf")


# ----------------------------------------------------------------------------- mode-agnostic helpers on K
def _k_unravel(self, dims, pos):
    """index tuple of row-major position `pos` in a block of extents `dims`"""
    if self.mode == "native":
        import numpy as np

        if not dims:
            return ()
        return tuple(int(x) for x in np.unravel_index(int(pos), tuple(int(d) for d in dims)))
    from .values import rowmajor

    return tuple(T(u) for u in rowmajor([zdim(d) for d in dims]).unravel(lift(pos)))


def _k_ravel(self, dims, idx):
    if self.mode == "native":
        import numpy as np

        if not dims:
            return 0
        return int(np.ravel_multi_index(tuple(int(i) for i in idx), tuple(int(d) for d in dims)))
    from .values import rowmajor

    return T(rowmajor([zdim(d) for d in dims]).ravel([lift(i) for i in idx]))


def _k_at(self, arr, idx):
    """arr[idx] for an index tuple (scalars come back as scalars in both modes)"""
    idx = tuple(idx)
    if self.mode == "native":
        import numpy as np

        if not isinstance(arr, np.ndarray) and hasattr(arr, "__array__"):
            arr = np.asarray(arr)
        if isinstance(arr, np.ndarray):
            v = arr[tuple(int(i) for i in idx)] if idx else arr[()]
            return v.item() if hasattr(v, "item") else v
        if idx:
            raise NativeFailure("shape", f"scalar indexed with {idx}")
        return arr
    if isinstance(arr, SymArray):
        return T(arr.get(tuple(lift(i) for i in idx)))
    if idx:
        raise Undecided("scalar result indexed")
    return arr


def _k_shape(self, arr):
    if self.mode == "native":
        import numpy as np

        if not isinstance(arr, np.ndarray) and hasattr(arr, "__array__"):
            arr = np.asarray(arr)

        return tuple(np.shape(arr))
    if isinstance(arr, SymArray):
        return arr.shape
    return ()


def _k_ravel_size(self, dims):
    if self.mode == "native":
        n = 1
        for d in dims:
            n *= int(d)
        return n
    from .values import rowmajor

    return T(rowmajor([zdim(d) for d in dims]).N)


K.ravel_size = _k_ravel_size
K.unravel = _k_unravel
K.ravel = _k_ravel
K.at = _k_at
K.shape = _k_shape


def _k_absfunc(self, name, params, outputs=1, out_keys=None, ret="float", vector=False):
    """uninterpreted function with the given signature (symbolic) / linear test function (native);
    both expose .spec(values_by_name, output_index)"""
    from .absfunc import AbsFunc, native_function

    if self.mode == "native":
        return native_function(name, params, outputs, out_keys, vector)
    f = AbsFunc(name, params, outputs, out_keys, ret)
    f._a.vector = vector
    return f


K.absfunc = _k_absfunc


def _k_close(self, a, b, tol=1e-4):
    """equality over the reals; native mode: floating-point tolerance (rounding is outside the model)"""
    if self.mode == "native":
        fa, fb = float(a), float(b)
        if fa != fa or fb != fb:  # NaN is outside the model of the reals: both sides must agree on it
            return fa != fa and fb != fb
        if fa in (float("inf"), float("-inf")) or fb in (float("inf"), float("-inf")):
            return fa == fb
        return abs(a - b) <= tol * (1 + abs(a) + abs(b))
    return L.eq(a, b)


def _k_fn(self, qualname):
    """another real function of the working tree (for contracts over compositions)"""
    if self.mode == "native":
        return self.native.function(qualname)
    return self.world.function(qualname)


K.close = _k_close
K.fn = _k_fn


def _k_modelfunc(self, name, params, ret="float", n_labels=None):
    """a user model function: uninterpreted (symbolic) / numeric stand-in (native)"""
    from .absfunc import AbsFunc, native_model_function

    if self.mode == "native":
        # the numeric stand-ins vary between trials (a fixed family would leave some skeletons without any
        # usable sample, e.g. a constraint that excludes every choice in some state); the salt is an input
        key = "model-functions.salt"
        if key not in self.inputs:
            if self.model is not None:
                self.inputs[key] = int(self.model.get(key, 0))
            else:
                self.inputs[key] = self.rng.randrange(0, 1 << 16)
        return native_model_function(name, params, ret, n_labels, salt=self.inputs[key])
    f = AbsFunc(name, [(p, "pk") for p in params], ret=ret)
    from . import vc as _vc

    _vc.HUB_NAMES.add(name)
    if ret == "int" and n_labels is not None and params:
        xs = [z3.Real(f"{name}.x{i}") for i in range(len(params))]
        app = f._a.F[0](*xs)
        # "transitions stay in the space": labels returned by a discrete law of motion are valid
        cur().assume(z3.ForAll(xs, z3.And(app >= 0, app < n_labels), patterns=[app]), tag="requires")
    return f


K.modelfunc = _k_modelfunc


def _k_leq(self, a, b, tol=1e-4):
    if self.mode == "native":
        return a <= b + tol * (1 + abs(a) + abs(b))
    return a <= b


K.leq = _k_leq
