"""Uninterpreted user/model functions with a concrete Python signature.

Symbolic modes: a callable that binds its arguments with CPython's own binding rules
(`inspect.Signature.bind`) and returns the z3 term F(v_1, ..., v_n) of the bound scalar values in
parameter order.  Native mode: a real Python function with the same signature computing an
injective-enough integer polynomial of its arguments (jax-traceable), and the same polynomial as
oracle (`value`).
"""

from __future__ import annotations

import inspect

import z3

from .ctx import Undecided
from .values import SymArray, T, lift, _to_real

P = inspect.Parameter
KINDS = {"po": P.POSITIONAL_ONLY, "pk": P.POSITIONAL_OR_KEYWORD, "ko": P.KEYWORD_ONLY}


def make_signature(params):
    """params: list of (name, kind in po|pk|ko)"""
    return inspect.Signature([P(n, KINDS[k]) for n, k in params])


class AbsFunc:
    def __init__(self, name, params, outputs=1, out_keys=None, ret="float"):
        self.__name__ = name
        self.__qualname__ = name
        self.__module__ = "pyvc.absfunc"
        self.__doc__ = None
        self.__annotations__ = {}
        self.params = list(params)
        self.names = [n for n, _ in params]
        self.__signature__ = make_signature(params)
        self.outputs = outputs
        self.out_keys = out_keys
        sort = {"float": z3.RealSort(), "bool": z3.BoolSort(), "int": z3.IntSort()}[ret]
        self.F = [z3.Function(f"{name}.{o}" if outputs > 1 or out_keys else name, *([z3.RealSort()] * len(params)), sort) if params else z3.Const(f"{name}.{o}" if outputs > 1 or out_keys else name, sort) for o in range(len(out_keys) if out_keys else outputs)]
        self.n_calls = 0

    def term(self, values, o=0):
        vals = []
        for v in values:
            if isinstance(v, SymArray):
                if v.ndim != 0:
                    raise Undecided(f"uninterpreted function {self.__name__} applied to a non-scalar array")
                v = v.get(())
            vals.append(_to_real(lift(v)))
        return self.F[o](*vals) if self.params else self.F[o]

    def __call__(self, *args, **kwargs):
        ba = self.__signature__.bind(*args, **kwargs)  # TypeError exactly as CPython would raise
        self.n_calls += 1
        values = [ba.arguments[n] for n in self.names]
        outs = [T(self.term(values, o)) for o in range(len(self.F))]
        if self.out_keys:
            return dict(zip(self.out_keys, outs))
        if self.outputs == 1:
            return outs[0]
        return tuple(outs)

    def spec(self, by_name, o=0):
        """the value the property demands: F applied to the values bound *by name*"""
        return T(self.term([by_name[n] for n in self.names], o))


_COEFFS = [3, 5, 7, 11, 13, 17, 19]


def native_function(name, params, outputs=1, out_keys=None):
    """real function `name(<signature>)` returning c0 + sum_i c_i * arg_i (per output a different
    coefficient vector); integer-valued floats stay exact in float32 for small inputs."""
    parts = []
    seen_ko = False
    names = [n for n, _ in params]
    for i, (n, kd) in enumerate(params):
        if kd == "ko" and not seen_ko:
            parts.append("*")
            seen_ko = True
        parts.append(n)
        if kd == "po" and (i + 1 == len(params) or params[i + 1][1] != "po"):
            parts.append("/")
    n_out = len(out_keys) if out_keys else outputs

    def expr(o):
        terms = [str(o + 1)] + [f"{_COEFFS[(i + o) % len(_COEFFS)] * (10 ** o)} * {n}" for i, n in enumerate(names)]
        return " + ".join(terms)

    if out_keys:
        body = "{" + ", ".join(f"{k!r}: {expr(o)}" for o, k in enumerate(out_keys)) + "}"
    elif n_out == 1:
        body = expr(0)
    else:
        body = "(" + ", ".join(expr(o) for o in range(n_out)) + ",)"
    src = f"def {name}({', '.join(parts)}):\n    return {body}\n"
    ns = {}
    exec(src, ns)  # noqa: S102 - generated from a fixed template
    f = ns[name]

    def value(by_name, o=0):
        return (o + 1) + sum(_COEFFS[(i + o) % len(_COEFFS)] * (10 ** o) * by_name[n] for i, n in enumerate(names))

    f.spec = value
    f.names = names
    return f
