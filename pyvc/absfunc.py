"""Uninterpreted user/model functions with a concrete Python signature.

Symbolic modes: a callable that binds its arguments with CPython's own binding rules
(`inspect.Signature.bind`) and returns the z3 term F(v_1, ..., v_n) of the bound scalar values in
parameter order.  Native mode: a real Python function with the same signature computing an
injective-enough integer polynomial of its arguments (jax-traceable), and the same polynomial as
oracle (`value`).
"""

from __future__ import annotations

import inspect

import z3

from .ctx import Undecided
from .values import SymArray, T, lift, _to_real

P = inspect.Parameter
KINDS = {"po": P.POSITIONAL_ONLY, "pk": P.POSITIONAL_OR_KEYWORD, "ko": P.KEYWORD_ONLY}


def make_signature(params):
    """params: list of (name, kind in po|pk|ko)"""
    return inspect.Signature([P(n, KINDS[k]) for n, k in params])


class _AInfo:
    pass


class AbsFunc:
    """Internals live in a slot so that functools.wraps (which copies __dict__) and deepcopy treat it
    like a plain function; `__signature__` follows __wrapped__/overrides exactly as for functions."""

    __slots__ = ("_a", "__dict__", "__weakref__")

    def __init__(self, name, params, outputs=1, out_keys=None, ret="float"):
        a = _AInfo()
        a.params = list(params)
        a.names = [n for n, _ in params]
        a.sig = make_signature(params)
        a.outputs = outputs
        a.out_keys = out_keys
        a.ret = ret
        sort = {"float": z3.RealSort(), "bool": z3.BoolSort(), "int": z3.IntSort()}[ret]
        n_out = len(out_keys) if out_keys else outputs
        multi = outputs > 1 or bool(out_keys)
        a.F = [
            (z3.Function(f"{name}.{o}" if multi else name, *([z3.RealSort()] * len(params)), sort) if params else z3.Const(f"{name}.{o}" if multi else name, sort))
            for o in range(n_out)
        ]
        a.n_calls = 0
        a.name = name
        a.vector = False
        self._a = a
        d = self.__dict__
        d["__name__"] = name
        d["__qualname__"] = name
        d["__module__"] = "pyvc.absfunc"
        d["__doc__"] = None
        d["__annotations__"] = {}

    @property
    def __signature__(self):
        d = self.__dict__
        if "__signature__" in d:
            return d["__signature__"]
        return self._a.sig

    @__signature__.setter
    def __signature__(self, v):
        self.__dict__["__signature__"] = v

    @property
    def names(self):
        return self._a.names

    @property
    def params(self):
        return self._a.params

    @property
    def n_calls(self):
        return self._a.n_calls

    def __deepcopy__(self, memo):
        return self  # functions are atomic for copy.deepcopy

    def __copy__(self):
        return self

    def __repr__(self):
        return f"<uninterpreted {self._a.name}({', '.join(self._a.names)})>"

    def term(self, values, o=0):
        a = self._a
        vals = []
        for v in values:
            if isinstance(v, SymArray):
                if v.ndim != 0:
                    raise Undecided(f"uninterpreted function {a.name} applied to a non-scalar array")
                v = v.get(())
            vals.append(_to_real(lift(v)))
        return a.F[o](*vals) if a.params else a.F[o]

    def __call__(self, *args, **kwargs):
        a = self._a
        ba = a.sig.bind(*args, **kwargs)  # TypeError exactly as CPython would raise
        a.n_calls += 1
        values = [ba.arguments[n] for n in a.names]
        if any(isinstance(v, SymArray) and v.ndim > 0 for v in values):
            # user functions are pure and act elementwise on arrays (assumption, DESIGN 4.3)
            from .ctx import cur, has_ctx
            from .values import elementwise

            if has_ctx():
                stack = []
                try:
                    from .exec import CURRENT_INTERP

                    stack = list(CURRENT_INTERP[0].stack) if CURRENT_INTERP else []
                except ImportError:  # pragma: no cover
                    pass
                cur().events.append({"kind": "array-application", "name": a.name, "in_targets": any(q.endswith("simulate._compute_targets") for q in stack)})
            outs = [elementwise(values, (lambda o: lambda *es: a.F[o](*[_to_real(e) for e in es]))(o), a.ret) for o in range(len(a.F))]
        else:
            outs = [T(self.term(values, o)) for o in range(len(a.F))]
        if a.out_keys:
            return dict(zip(a.out_keys, outs))
        if getattr(a, "vector", False):
            from .values import stack_list

            return stack_list(outs)  # one array-valued output leaf
        if a.outputs == 1:
            return outs[0]
        return tuple(outs)

    def spec(self, by_name, o=0):
        """the value the property demands: F applied to the values bound *by name*"""
        return T(self.term([by_name[n] for n in self._a.names], o))


_COEFFS = [3, 5, 7, 11, 13, 17, 19]


def native_function(name, params, outputs=1, out_keys=None, vector=False):
    """real function `name(<signature>)` returning c0 + sum_i c_i * arg_i (per output a different
    coefficient vector); integer-valued floats stay exact in float32 for small inputs."""
    parts = []
    seen_ko = False
    names = [n for n, _ in params]
    for i, (n, kd) in enumerate(params):
        if kd == "ko" and not seen_ko:
            parts.append("*")
            seen_ko = True
        parts.append(n)
        if kd == "po" and (i + 1 == len(params) or params[i + 1][1] != "po"):
            parts.append("/")
    n_out = len(out_keys) if out_keys else outputs

    def expr(o):
        terms = [str(o + 1)] + [f"{_COEFFS[(i + o) % len(_COEFFS)] * (10 ** o)} * {n}" for i, n in enumerate(names)]
        return " + ".join(terms)

    if out_keys:
        body = "{" + ", ".join(f"{k!r}: {expr(o)}" for o, k in enumerate(out_keys)) + "}"
    elif vector:
        body = "__import__('jax').numpy.stack([" + ", ".join(expr(o) for o in range(n_out)) + "])"
    elif n_out == 1:
        body = expr(0)
    else:
        body = "(" + ", ".join(expr(o) for o in range(n_out)) + ",)"
    src = f"def {name}({', '.join(parts)}):\n    return {body}\n"
    ns = {}
    exec(src, ns)  # noqa: S102 - generated from a fixed template
    f = ns[name]

    def value(by_name, o=0):
        return (o + 1) + sum(_COEFFS[(i + o) % len(_COEFFS)] * (10 ** o) * by_name[n] for i, n in enumerate(names))

    f.spec = value
    f.names = names
    return f


def native_model_function(name, params, ret="float", n_labels=None, salt=0):
    """numeric stand-in for a user model function (native mode): jax-traceable, deterministic from
    the name; float: affine + one product; bool: a mixture of True/False; int: a label in [0, n)."""
    import zlib

    seed = zlib.crc32(name.encode()) ^ ((int(salt) * 2654435761) & 0xFFFFFFFF)
    cs = [((seed >> (3 * i)) % 7 + 1) / 4.0 * (1 if (seed >> i) & 1 else -1) for i in range(len(params) + 1)]
    lin = " + ".join([repr(cs[0])] + [f"{cs[i + 1]!r} * {p}" for i, p in enumerate(params)])
    if ret == "float":
        extra = f" + 0.125 * {params[0]} * {params[-1]}" if len(params) >= 2 else ""
        body = f"({lin}){extra} + 0.0 * jnp.zeros(())"
    elif ret == "bool":
        # the jumps are shifted off the lattice on which sampled parameters and grid points lie (multiples of
        # 1/96): a jump exactly at a grid point would be decided by float32 rounding, differently in the
        # fused real code and in the specification
        body = f"(jnp.floor(jnp.abs({lin}) * 4.0 + 0.37) % 6) != 0"
    else:
        body = f"(jnp.floor(jnp.abs({lin}) * 2.0 + 0.37).astype(int)) % {int(n_labels)}"
    src = f"import jax.numpy as jnp\ndef {name}({', '.join(params)}):\n    return {body}\n"
    ns = {}
    exec(src, ns)  # noqa: S102 - generated from a fixed template
    f = ns[name]
    f.names = list(params)
    return f
