"""`for` loops over a symbolic number of iterations, verified with an inductive invariant supplied by
the sidecar contract (LoopSpec): initialisation, preservation by one arbitrary iteration of the real
loop body, and use after the loop."""

from __future__ import annotations

import ast

import z3

from .ctx import Undecided, cur
from .values import T, lift


class LoopSpec:
    """variables: names of the loop-carried variables;
    havoc(k) -> {name: arbitrary value};   inv(k, values) -> z3 Bool (k = number of completed iterations)"""

    def __init__(self, variables, havoc, inv):
        self.variables, self.havoc, self.inv = variables, havoc, inv


def _assigned(stmts):
    out = set()
    for n in ast.walk(ast.Module(body=list(stmts), type_ignores=[])):
        if isinstance(n, ast.Name) and isinstance(n.ctx, ast.Store):
            out.add(n.id)
        if isinstance(n, ast.Call) and isinstance(n.func, ast.Attribute) and n.func.attr in ("append", "extend", "update", "insert", "pop") and isinstance(n.func.value, ast.Name):
            out.add(n.func.value.id)
    return out


def sym_for(interp, s, it, env, mod, fn):
    ctx = cur()
    world = interp.world
    qn = fn.pyvc_qualname if fn is not None else mod.name
    ordinal = ctx.memo.setdefault(("loop-ordinal", qn), 0)
    ctx.memo[("loop-ordinal", qn)] = ordinal + 1
    spec = world.loop_specs.get((qn, ordinal))
    if spec is None:
        raise Undecided(f"loop #{ordinal} of {qn} runs a symbolic number of times and has no invariant")
    if s.orelse:
        raise Undecided("for-else")
    if not isinstance(s.target, ast.Name):
        raise Undecided("symbolic loop with a structured target")
    n = lift(it.pyvc_len())
    modified = (_assigned(s.body) - {s.target.id}) & set(_visible(env))
    undeclared = modified - set(spec.variables)
    if undeclared:
        raise Undecided(f"loop of {qn} modifies {sorted(undeclared)}, which the invariant does not mention")
    cur_vals = {v: env.lookup(v) for v in spec.variables}
    tag = f"{qn}#loop{ordinal}"
    # initialisation
    ctx.prove(f"{tag}:invariant-holds-initially", spec.inv(z3.IntVal(0), cur_vals), "inv-init", scope="forall")
    # preservation: an arbitrary iteration k
    k = z3.Int(ctx.fresh("iter"))
    ctx.assume(z3.And(k >= 0, k < n), tag="loop")
    hv = spec.havoc(k)
    for v, val in hv.items():
        _set(env, v, val)
    ctx.assume(spec.inv(k, hv), tag="loop-invariant")
    env.vars[s.target.id] = T(lift(it.at(T(k))))
    interp.exec_block(s.body, env, mod, fn)
    after = {v: env.lookup(v) for v in spec.variables}
    ctx.prove(f"{tag}:invariant-preserved-by-the-loop-body", spec.inv(k + 1, after), "inv-pres", scope="forall")
    # after the loop: n iterations completed
    hv2 = spec.havoc(n)
    for v, val in hv2.items():
        _set(env, v, val)
    ctx.assume(spec.inv(n, hv2), tag="loop-invariant-exit")


def _visible(env):
    e = env
    out = set()
    while e is not None:
        out |= set(e.vars)
        e = e.parent
    return out


def _set(env, name, val):
    e = env
    while e is not None:
        if name in e.vars:
            e.vars[name] = val
            return
        e = e.parent
    env.vars[name] = val


class CutSpec:
    """Cut point at the head of a loop that is unrolled (concrete number of iterations): before iteration
    k the loop-carried variables must satisfy `inv` (obligation); they are then replaced by arbitrary values
    satisfying `inv` (havoc(k, current) -> {name: value}, or None to keep the real values, e.g. for k = 0),
    so that every iteration is verified on its own, for any incoming state; `after(k, values)` lets the
    contract record the outcome of the iteration."""

    cut = True

    def __init__(self, variables, havoc, inv=None, after=None, name="loop", observe=()):
        self.variables, self.havoc, self.inv, self.after, self.name = variables, havoc, inv, after, name
        self.observe = tuple(observe)  # further local variables handed to `after` (ghost observation)


def cut_point(interp, spec, k, env):
    ctx = cur()
    vals = {name: env.lookup(name) for name in spec.variables}
    if spec.inv is not None:
        g = spec.inv(k, vals)
        if g is not True:
            ctx.prove(f"{spec.name}:invariant-holds-at-the-head-of-iteration-{k}", g, "inv-pres")
    new = spec.havoc(k, vals)
    if new is None:
        return
    for name, val in new.items():
        _set(env, name, val)
    if spec.inv is not None:
        g2 = spec.inv(k, {**vals, **new})
        if g2 is not True:
            ctx.assume(g2, tag="loop-invariant")
