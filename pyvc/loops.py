from .ctx import Undecided


def sym_for(interp, s, it, env, mod, fn):
    raise Undecided("loop over a symbolic-length iterable without an invariant")
