"""Symbolic executor over the Python AST of the working tree (DESIGN 2, 3).

`World` loads *shadow modules*: every `lcm` module is parsed from `<repo>/src/lcm/**.py` at
check time and its top level is interpreted here (functions become `Closure`s, classes are
created with `types.new_class` from interpreted bodies).  `jax`, `jax.numpy` and `numpy` resolve
to the library contracts in `pyvc.stubs`; every other import is the real installed module and
runs natively on concrete structure.
"""

from __future__ import annotations

import ast
import builtins
import importlib
import inspect
import os
import sys
import types

from .ctx import Undecided, cur, has_ctx
from .values import SymArray, T, conc, lift, pydim

import z3


class _Return(Exception):
    def __init__(self, v):
        self.v = v


class _Break(Exception):
    pass


class _Continue(Exception):
    pass


# exceptions of the verifier itself: never caught by interpreted `except` clauses
def _is_control(exc):
    from .ctx import Infeasible

    return isinstance(exc, (_Return, _Break, _Continue, Undecided, Infeasible))


class Env:
    __slots__ = ("vars", "parent", "kind", "cls")

    def __init__(self, parent=None, kind="function", cls=None):
        self.vars = {}
        self.parent = parent
        self.kind = kind
        self.cls = cls if cls is not None else (parent.cls if parent is not None else None)

    def lookup(self, name):
        e = self
        while e is not None:
            if name in e.vars:
                return e.vars[name]
            e = e.parent
        raise KeyError(name)


class _CInfo:
    __slots__ = ("node", "env", "world", "module", "defaults", "kwdefaults", "sig", "cls", "is_lambda", "bound_self")


class Closure:
    """A function of the working tree (def or lambda) with its captured environment."""

    __slots__ = ("_c", "__dict__", "__weakref__")

    def __init__(self, node, env, world, module, qualname, defaults, kwdefaults, cls=None):
        c = _CInfo()
        c.node, c.env, c.world, c.module = node, env, world, module
        c.defaults, c.kwdefaults, c.cls = defaults, kwdefaults, cls
        c.is_lambda = isinstance(node, ast.Lambda)
        c.sig = _signature_of(node, defaults, kwdefaults)
        c.bound_self = None
        self._c = c
        d = self.__dict__
        d["__name__"] = "<lambda>" if c.is_lambda else node.name
        d["__qualname__"] = qualname
        d["__module__"] = module.name if module else "?"
        d["__doc__"] = None if c.is_lambda else ast.get_docstring(node)
        d["__annotations__"] = {}

    # inspect.signature() support with the semantics of real functions under functools.wraps
    @property
    def __signature__(self):
        d = self.__dict__
        if "__signature__" in d:
            return d["__signature__"]
        if "__wrapped__" in d:
            return inspect.signature(d["__wrapped__"])
        return self._c.sig

    @__signature__.setter
    def __signature__(self, v):
        self.__dict__["__signature__"] = v

    @property
    def pyvc_qualname(self):
        return f"{self._c.module.name}.{self.__dict__['__qualname__']}" if self._c.module else self.__dict__["__qualname__"]

    def __get__(self, obj, objtype=None):
        if obj is None:
            return self
        return BoundClosure(self, obj)

    def __deepcopy__(self, memo):
        return self  # functions are atomic for copy.deepcopy

    def __copy__(self):
        return self

    def __call__(self, *args, **kwargs):
        return self._c.world.interp.invoke(self, args, kwargs)

    def __repr__(self):
        return f"<closure {self.__dict__.get('__module__')}.{self.__dict__.get('__qualname__')}>"


class BoundClosure:
    __slots__ = ("__func__", "__self__", "__weakref__")

    def __init__(self, f, obj):
        self.__func__ = f
        self.__self__ = obj

    def __call__(self, *args, **kwargs):
        return self.__func__(self.__self__, *args, **kwargs)

    @property
    def __signature__(self):
        sig = self.__func__.__signature__
        ps = list(sig.parameters.values())[1:]
        return sig.replace(parameters=ps)

    @property
    def __name__(self):
        return self.__func__.__name__

    def __getattr__(self, name):
        return getattr(self.__func__, name)


def _signature_of(node, defaults, kwdefaults):
    a = node.args
    P = inspect.Parameter
    params = []
    pos = list(a.posonlyargs) + list(a.args)
    nd = len(defaults)
    for i, arg in enumerate(pos):
        kind = P.POSITIONAL_ONLY if i < len(a.posonlyargs) else P.POSITIONAL_OR_KEYWORD
        di = i - (len(pos) - nd)
        default = defaults[di] if di >= 0 else P.empty
        params.append(P(arg.arg, kind, default=default))
    if a.vararg:
        params.append(P(a.vararg.arg, P.VAR_POSITIONAL))
    for arg, d in zip(a.kwonlyargs, kwdefaults):
        params.append(P(arg.arg, P.KEYWORD_ONLY, default=P.empty if d is _NODEFAULT else d))
    if a.kwarg:
        params.append(P(a.kwarg.arg, P.VAR_KEYWORD))
    return inspect.Signature(params)


_NODEFAULT = object()


class ShadowModule(types.SimpleNamespace):
    """namespace of an interpreted lcm module (attribute access = module globals)"""

    def __init__(self, name, env, tree, path):
        object.__setattr__(self, "name", name)
        object.__setattr__(self, "_env", env)
        object.__setattr__(self, "tree", tree)
        object.__setattr__(self, "path", path)
        object.__setattr__(self, "__name__", name)

    def __getattr__(self, item):
        try:
            return self._env.vars[item]
        except KeyError:
            raise AttributeError(f"shadow module {self.name} has no attribute {item}") from None

    def __setattr__(self, k, v):
        self._env.vars[k] = v

    def __repr__(self):
        return f"<shadow module {self.name}>"


# ----------------------------------------------------------------------------- symbolic-aware builtins
def _sym_len(x):
    if isinstance(x, SymArray):
        return x.sym_len()
    if hasattr(x, "pyvc_len"):
        return x.pyvc_len()
    return builtins.len(x)


def _sym_isinstance(x, cls):
    if isinstance(x, T):
        return _t_isinstance(x, cls)
    if hasattr(x, "pyvc_isinstance"):
        return x.pyvc_isinstance(cls)
    return builtins.isinstance(x, cls)


def _t_isinstance(x, cls):
    if isinstance(cls, types.UnionType):
        return any(_t_isinstance(x, c) for c in cls.__args__)
    if isinstance(cls, tuple):
        return any(_t_isinstance(x, c) for c in cls)
    e = x.e
    if cls is bool:
        return z3.is_bool(e)
    if cls is int:
        return z3.is_int(e) or z3.is_bool(e)
    if cls is float:
        return z3.is_real(e)
    if cls is T or cls is object:
        return True
    return False


class SymRange:
    """range(n) with symbolic n; iterable only through a loop invariant."""

    def __init__(self, n, rev=False):
        self.n = n
        self.rev = rev

    def pyvc_len(self):
        return self.n

    def __reversed__(self):
        return SymRange(self.n, not self.rev)

    def at(self, k):
        """value of the k-th iteration"""
        return (self.n - 1 - k) if self.rev else k


def _sym_range(*args):
    if any(isinstance(a, T) for a in args):
        cs = [conc(lift(a)) for a in args]
        if all(c is not None for c in cs):
            return builtins.range(*cs)
        if len(args) == 1:
            return SymRange(args[0])
        raise Undecided("range(start, stop) with symbolic bounds")
    return builtins.range(*args)


def _sym_reversed(x):
    if isinstance(x, SymRange):
        return x.__reversed__()
    return builtins.reversed(x)


def _sym_list(*a):
    if a and hasattr(a[0], "pyvc_list"):
        return a[0].pyvc_list()
    return builtins.list(*a)


def _noop_print(*a, **k):
    return None


def _sym_isfinite(x):
    if isinstance(x, T):
        return True  # symbolic scalars are finite reals; inf / nan are separate concrete cases
    raise Undecided("math.isfinite of an array")


import math as _math  # noqa: E402

NATIVE_OVERRIDES = {_math.isfinite: _sym_isfinite}

SYM_BUILTINS = {
    "len": _sym_len,
    "isinstance": _sym_isinstance,
    "range": _sym_range,
    "reversed": _sym_reversed,
    "list": _sym_list,
    "print": _noop_print,
}


# ----------------------------------------------------------------------------- world
class World:
    def __init__(self, src_root, stubs=None):
        self.src_root = os.path.abspath(src_root)
        self.modules: dict[str, ShadowModule] = {}
        self.interp = Interp(self)
        self.overrides = {}  # qualified name -> callable(closure, args, kwargs) (callee contracts)
        self.loop_specs = {}  # (qualified name, loop ordinal) -> LoopSpec
        self.call_hooks = []  # observers: f(qualname, args, kwargs)
        self.covered = set()  # (module, lineno) of executed statements
        from . import stubs as _st

        self.stub_modules = _st.stub_modules() if stubs is None else stubs

    # -- modules
    def path_of(self, name):
        rel = name.replace(".", "/")
        for cand in (os.path.join(self.src_root, rel + ".py"), os.path.join(self.src_root, rel, "__init__.py")):
            if os.path.exists(cand):
                return cand
        return None

    def load(self, name) -> ShadowModule:
        if name in self.modules:
            return self.modules[name]
        # like CPython: parent packages are imported first (their __init__ fixes the import order)
        if "." in name:
            self.load(name.rsplit(".", 1)[0])
            if name in self.modules:
                return self.modules[name]
        path = self.path_of(name)
        if path is None:
            raise Undecided(f"shadow module {name} not found under {self.src_root}")
        with open(path) as fh:
            src = fh.read()
        tree = ast.parse(src, filename=path)
        env = Env(None, kind="module")
        mod = ShadowModule(name, env, tree, path)
        env.vars["__name__"] = name
        env.vars["__file__"] = path
        self.modules[name] = mod
        self.interp.exec_block(tree.body, env, mod)
        return mod

    def resolve_import(self, fullname):
        """module object for an absolute import name"""
        if fullname in self.stub_modules:
            return self.stub_modules[fullname]
        top = fullname.split(".")[0]
        if top == "lcm":
            return self.load(fullname)
        if top in ("jax", "numpy"):
            raise Undecided(f"library module {fullname} has no contract stub")
        return importlib.import_module(fullname)

    def function(self, qualname) -> Closure:
        """`lcm.argmax.argmax`, `lcm.grids.LinspaceGrid.to_jax` ..."""
        parts = qualname.split(".")
        for cut in range(len(parts) - 1, 0, -1):
            mname = ".".join(parts[:cut])
            if self.path_of(mname):
                obj = self.load(mname)
                for p in parts[cut:]:
                    obj = getattr(obj, p) if not isinstance(obj, type) else obj.__dict__[p]
                return obj
        raise Undecided(f"contract target {qualname} not found")


class LoopSpec:
    """invariant(k, get) for a loop with a symbolic number of iterations; see Interp._sym_for"""

    def __init__(self, invariant, name="inv"):
        self.invariant = invariant
        self.name = name


# ----------------------------------------------------------------------------- interpreter
CURRENT_INTERP: list = []


class Interp:
    def __init__(self, world: World):
        CURRENT_INTERP[:] = [self]
        self.world = world
        self.depth = 0
        self.stack = []
        self._handling = []

    # ---- function invocation
    def invoke(self, clo: Closure, args, kwargs):
        c = clo._c
        w = self.world
        qn = clo.pyvc_qualname
        ov = w.overrides.get(qn)
        if ov is not None:
            return ov(clo, args, kwargs)
        for h in w.call_hooks:
            h(qn, args, kwargs)
        try:
            ba = c.sig.bind(*args, **kwargs)
        except TypeError as e:
            raise TypeError(f"{clo.__dict__['__name__']}() {e}") from None
        ba.apply_defaults()
        env = Env(c.env, kind="function", cls=c.cls)
        env.vars["__qualprefix__"] = clo.__dict__["__qualname__"] + ".<locals>."
        env.vars.update(ba.arguments)
        node = c.node
        self.depth += 1
        self.stack.append(qn)
        if self.depth > 200:
            raise Undecided("call depth > 200")
        try:
            if c.is_lambda:
                return self.eval(node.body, env, c.module)
            try:
                self.exec_block(node.body, env, c.module, fn=clo)
            except _Return as r:
                return r.v
            return None
        finally:
            self.depth -= 1
            self.stack.pop()

    def call(self, f, args, kwargs):
        return f(*args, **kwargs)

    # ---- statements
    def exec_block(self, stmts, env, mod, fn=None):
        for s in stmts:
            self.exec_stmt(s, env, mod, fn)

    def exec_stmt(self, s, env, mod, fn=None):
        self.world.covered.add((mod.name, s.lineno))
        m = getattr(self, "s_" + type(s).__name__, None)
        if m is None:
            raise Undecided(f"unsupported statement {type(s).__name__} at {mod.name}:{s.lineno}")
        return m(s, env, mod, fn)

    def s_Expr(self, s, env, mod, fn):
        if isinstance(s.value, ast.Constant) and isinstance(s.value.value, str):
            return  # docstring
        self.eval(s.value, env, mod)

    def s_Pass(self, s, env, mod, fn):
        return

    def s_Return(self, s, env, mod, fn):
        raise _Return(self.eval(s.value, env, mod) if s.value is not None else None)

    def s_Assign(self, s, env, mod, fn):
        v = self.eval(s.value, env, mod)
        for t in s.targets:
            self.assign(t, v, env, mod)

    def s_AnnAssign(self, s, env, mod, fn):
        if env.kind == "class":
            ann = env.vars.setdefault("__annotations__", {})
            try:
                ann[s.target.id] = self.eval(s.annotation, env, mod)
            except Exception:  # annotation not evaluable: irrelevant for behaviour
                import typing

                ann[s.target.id] = typing.Any
        if s.value is not None:
            self.assign(s.target, self.eval(s.value, env, mod), env, mod)

    def s_AugAssign(self, s, env, mod, fn):
        load = ast.copy_location(_as_load(s.target), s.target)
        cur_v = self.eval(load, env, mod)
        rhs = self.eval(s.value, env, mod)
        # exact in-place semantics (`d |= x`, `xs += ys` mutate the object; immutable values rebind)
        iop = _INPLACE.get(type(s.op))
        if iop is None:
            raise Undecided(f"augmented assignment operator {type(s.op).__name__}")
        if isinstance(cur_v, (list, dict, set)):
            self.store_hook(cur_v, "inplace", None)
            self.assign(s.target, iop(cur_v, rhs), env, mod)
            return
        self.assign(s.target, _binop(s.op, cur_v, rhs), env, mod)

    def s_If(self, s, env, mod, fn):
        c = self.eval(s.test, env, mod)
        if self.truth(c):
            self.exec_block(s.body, env, mod, fn)
        else:
            self.exec_block(s.orelse, env, mod, fn)

    def s_Raise(self, s, env, mod, fn):
        if s.exc is None:
            if self._handling:
                raise self._handling[-1]
            raise RuntimeError("No active exception to reraise")
        exc = self.eval(s.exc, env, mod)
        if isinstance(exc, type):
            exc = exc()
        if s.cause is not None:
            raise exc from self.eval(s.cause, env, mod)
        raise exc

    def s_For(self, s, env, mod, fn):
        it = self.eval(s.iter, env, mod)
        if isinstance(it, SymRange) or hasattr(it, "pyvc_symbolic_iter"):
            return self._sym_for(s, it, env, mod, fn)
        cut = None
        if fn is not None and self.world.loop_specs:
            fenv = env
            while fenv is not None and fenv.kind != "function":
                fenv = fenv.parent
            if fenv is not None:
                ordinal = fenv.vars.get("__loopcount__", 0)
                fenv.vars["__loopcount__"] = ordinal + 1
                spec = self.world.loop_specs.get((fn.pyvc_qualname, ordinal))
                if spec is not None and getattr(spec, "cut", False):
                    cut = spec
        for k, v in enumerate(_iterate(it)):
            if cut is not None:
                from .loops import cut_point

                cut_point(self, cut, k, env)
            self.assign(s.target, v, env, mod)
            try:
                self.exec_block(s.body, env, mod, fn)
            except _Continue:
                pass
            except _Break:
                if cut is not None:
                    raise Undecided("break out of a loop with a cut point") from None
                break
            if cut is not None and cut.after is not None:
                cut.after(k, {name: env.lookup(name) for name in list(cut.variables) + list(getattr(cut, "observe", ()))})
        else:
            self.exec_block(s.orelse, env, mod, fn)

    def s_While(self, s, env, mod, fn):
        n = 0
        while self.truth(self.eval(s.test, env, mod)):
            n += 1
            if n > 10000:
                raise Undecided(f"while loop at {mod.name}:{s.lineno} exceeds 10000 iterations")
            try:
                self.exec_block(s.body, env, mod, fn)
            except _Continue:
                continue
            except _Break:
                break
        else:
            self.exec_block(s.orelse, env, mod, fn)

    def s_Nonlocal(self, s, env, mod, fn):
        for name in s.names:
            e = env.parent
            while e is not None and not (e.kind == "function" and name in e.vars):
                e = e.parent
            if e is None:
                raise Undecided(f"nonlocal {name}: no binding found at {mod.name}:{s.lineno}")
            env.vars.setdefault("__nonlocal__", {})[name] = e

    def s_Global(self, s, env, mod, fn):
        for name in s.names:
            e = env
            while e.parent is not None:
                e = e.parent
            env.vars.setdefault("__nonlocal__", {})[name] = e

    def s_Break(self, s, env, mod, fn):
        raise _Break

    def s_Continue(self, s, env, mod, fn):
        raise _Continue

    def s_Delete(self, s, env, mod, fn):
        for t in s.targets:
            if isinstance(t, ast.Name):
                if t.id not in env.vars:
                    raise Undecided(f"del of a name that is not local at {mod.name}:{s.lineno}")
                del env.vars[t.id]
            elif isinstance(t, ast.Subscript):
                obj = self.eval(t.value, env, mod)
                key = self.eval(t.slice, env, mod)
                if isinstance(obj, (dict, list)):
                    self.store_hook(obj, "delitem", key)
                    del obj[conc(key) if isinstance(key, T) else key]
                else:
                    raise Undecided(f"del of an item of {type(obj).__name__}")
            else:
                raise Undecided(f"del target {type(t).__name__}")

    def s_With(self, s, env, mod, fn):
        exits = []
        try:
            for item in s.items:
                cm = self.eval(item.context_expr, env, mod)
                enter, exit_ = getattr(type(cm), "__enter__", None), getattr(type(cm), "__exit__", None)
                if enter is None or exit_ is None:
                    raise Undecided(f"with-statement on {type(cm).__name__} at {mod.name}:{s.lineno}")
                v = cm.__enter__()
                exits.append(cm)
                if item.optional_vars is not None:
                    self.assign(item.optional_vars, v, env, mod)
            self.exec_block(s.body, env, mod, fn)
        except BaseException as exc:  # noqa: BLE001
            if _is_control(exc) or not isinstance(exc, Exception):
                for cm in reversed(exits):
                    cm.__exit__(None, None, None)
                raise
            suppressed = False
            for cm in reversed(exits):
                if cm.__exit__(type(exc), exc, exc.__traceback__):
                    suppressed = True
                    exc = None
                    break
            if not suppressed:
                raise
        else:
            for cm in reversed(exits):
                cm.__exit__(None, None, None)

    def s_Import(self, s, env, mod, fn):
        for a in s.names:
            m = self.world.resolve_import(a.name)
            if a.asname:
                env.vars[a.asname] = m
            else:
                top = a.name.split(".")[0]
                env.vars[top] = self.world.resolve_import(top)

    def s_ImportFrom(self, s, env, mod, fn):
        base = s.module or ""
        if s.level:
            pkg = mod.name.split(".")
            is_pkg = os.path.basename(mod.path) == "__init__.py"
            up = s.level - (1 if is_pkg else 0)
            pkg = pkg[: len(pkg) - up] if up else pkg
            if not is_pkg and s.level == 1:
                pkg = mod.name.split(".")[:-1]
            base = ".".join(pkg + ([s.module] if s.module else []))
        m = self.world.resolve_import(base)
        for a in s.names:
            if a.name == "*":
                raise Undecided("star import")
            try:
                v = getattr(m, a.name)
            except AttributeError:
                try:
                    v = self.world.resolve_import(base + "." + a.name)
                except (ImportError, Undecided):
                    raise ImportError(f"cannot import name {a.name!r} from {base!r}") from None
            env.vars[a.asname or a.name] = v

    def s_FunctionDef(self, s, env, mod, fn):
        clo = self.make_closure(s, env, mod)
        v = clo
        for d in reversed(s.decorator_list):
            dec = self.eval(d, env, mod)
            v = dec(v)
        env.vars[s.name] = v

    def make_closure(self, node, env, mod):
        a = node.args
        defaults = [self.eval(d, env, mod) for d in a.defaults]
        kwdefaults = [(_NODEFAULT if d is None else self.eval(d, env, mod)) for d in a.kw_defaults]
        # qualified name
        if isinstance(node, ast.Lambda):
            nm = "<lambda>"
        else:
            nm = node.name
        prefix = _qual_prefix(env)
        # methods do not see the class scope
        def_env = env
        if env.kind == "class":
            def_env = env.parent
        clo = Closure(node, def_env, self.world, mod, prefix + nm, defaults, kwdefaults, cls=env.cls)
        return clo

    def s_ClassDef(self, s, env, mod, fn):
        bases = tuple(self.eval(b, env, mod) for b in s.bases)
        kwds = {k.arg: self.eval(k.value, env, mod) for k in s.keywords}
        cenv = Env(env, kind="class", cls=s.name)
        cenv.vars["__qualprefix__"] = _qual_prefix(env) + s.name + "."

        def body(ns):
            # interpret the class body into a scratch env, then copy in order
            self.exec_block(s.body, cenv, mod, fn)
            for k, v in cenv.vars.items():
                if k == "__qualprefix__":
                    continue
                ns[k] = v
            ns["__module__"] = mod.name
            ns["__qualname__"] = _qual_prefix(env) + s.name
            doc = ast.get_docstring(s)
            if doc is not None:
                ns["__doc__"] = doc

        cls = types.new_class(s.name, bases, kwds, body)
        for d in reversed(s.decorator_list):
            cls = self.eval(d, env, mod)(cls)
        env.vars[s.name] = cls

    def s_Try(self, s, env, mod, fn):
        try:
            try:
                self.exec_block(s.body, env, mod, fn)
            except Exception as exc:  # noqa: BLE001 - an exception of the interpreted program
                if _is_control(exc):
                    raise
                for h in s.handlers:
                    if h.type is None:
                        match = True
                    else:
                        ht = self.eval(h.type, env, mod)
                        match = isinstance(exc, ht if isinstance(ht, tuple) else (ht,))
                    if match:
                        if h.name:
                            env.vars[h.name] = exc
                        self._handling.append(exc)
                        try:
                            self.exec_block(h.body, env, mod, fn)
                        finally:
                            self._handling.pop()
                            if h.name:
                                env.vars.pop(h.name, None)
                        break
                else:
                    raise
            else:
                self.exec_block(s.orelse, env, mod, fn)
        finally:
            if s.finalbody:
                self.exec_block(s.finalbody, env, mod, fn)

    def s_Assert(self, s, env, mod, fn):
        c = self.eval(s.test, env, mod)
        if not self.truth(c):
            raise AssertionError(self.eval(s.msg, env, mod) if s.msg else "")

    # ---- symbolic loops
    def _sym_for(self, s, it, env, mod, fn):
        from .loops import sym_for

        return sym_for(self, s, it, env, mod, fn)

    # ---- assignment
    def assign(self, target, v, env, mod):
        if isinstance(target, ast.Name):
            redirect = env.vars.get("__nonlocal__")
            if redirect is not None and target.id in redirect:
                redirect[target.id].vars[target.id] = v
            else:
                env.vars[target.id] = v
        elif isinstance(target, (ast.Tuple, ast.List)):
            vals = list(_iterate(v))
            star = [i for i, e in enumerate(target.elts) if isinstance(e, ast.Starred)]
            if star:
                i = star[0]
                n_after = len(target.elts) - i - 1
                if len(vals) < len(target.elts) - 1:
                    raise ValueError("not enough values to unpack")
                for t, x in zip(target.elts[:i], vals[:i]):
                    self.assign(t, x, env, mod)
                self.assign(target.elts[i].value, vals[i : len(vals) - n_after], env, mod)
                for t, x in zip(target.elts[i + 1 :], vals[len(vals) - n_after :]):
                    self.assign(t, x, env, mod)
            else:
                if len(vals) != len(target.elts):
                    raise ValueError(
                        f"{'too many' if len(vals) > len(target.elts) else 'not enough'} values to unpack (expected {len(target.elts)})"
                    )
                for t, x in zip(target.elts, vals):
                    self.assign(t, x, env, mod)
        elif isinstance(target, ast.Subscript):
            obj = self.eval(target.value, env, mod)
            key = self.eval_slice(target.slice, env, mod)
            self.store_hook(obj, "setitem", key)
            obj[key] = v
        elif isinstance(target, ast.Attribute):
            obj = self.eval(target.value, env, mod)
            name = _mangle(target.attr, env)
            self.store_hook(obj, "setattr", name)
            setattr(obj, name, v)
        else:
            raise Undecided(f"assignment target {type(target).__name__}")

    def store_hook(self, obj, kind, key):
        if has_ctx():
            fr = cur().memo.get("frame")
            if fr is not None:
                fr.on_store(obj, kind, key)

    # ---- truth
    def truth(self, v):
        if isinstance(v, T):
            return bool(v)
        if isinstance(v, SymArray):
            return bool(v)
        if hasattr(v, "pyvc_truth"):
            return v.pyvc_truth()
        return bool(v)

    # ---- expressions
    def eval(self, e, env, mod):
        m = getattr(self, "e_" + type(e).__name__, None)
        if m is None:
            raise Undecided(f"unsupported expression {type(e).__name__} at {mod.name}:{getattr(e, 'lineno', '?')}")
        return m(e, env, mod)

    def e_Constant(self, e, env, mod):
        return e.value

    def e_NamedExpr(self, e, env, mod):
        v = self.eval(e.value, env, mod)
        tgt = env
        while tgt.kind == "comp" and tgt.parent is not None:
            tgt = tgt.parent
        tgt.vars[e.target.id] = v
        return v

    def e_Name(self, e, env, mod):
        try:
            return env.lookup(e.id)
        except KeyError:
            pass
        if e.id in SYM_BUILTINS:
            return SYM_BUILTINS[e.id]
        try:
            return getattr(builtins, e.id)
        except AttributeError:
            raise NameError(f"name {e.id!r} is not defined") from None

    def e_Tuple(self, e, env, mod):
        return tuple(self._elts(e.elts, env, mod))

    def e_List(self, e, env, mod):
        return list(self._elts(e.elts, env, mod))

    def e_Set(self, e, env, mod):
        return set(self._elts(e.elts, env, mod))

    def _elts(self, elts, env, mod):
        out = []
        for x in elts:
            if isinstance(x, ast.Starred):
                out.extend(_iterate(self.eval(x.value, env, mod)))
            else:
                out.append(self.eval(x, env, mod))
        return out

    def e_Dict(self, e, env, mod):
        d = {}
        for k, v in zip(e.keys, e.values):
            if k is None:
                d.update(self.eval(v, env, mod))
            else:
                d[self.eval(k, env, mod)] = self.eval(v, env, mod)
        return d

    def e_JoinedStr(self, e, env, mod):
        parts = []
        for v in e.values:
            if isinstance(v, ast.Constant):
                parts.append(str(v.value))
            else:
                parts.append(self.e_FormattedValue(v, env, mod))
        return "".join(parts)

    def e_FormattedValue(self, e, env, mod):
        v = self.eval(e.value, env, mod)
        if e.conversion == ord("r"):
            v = repr(v)
        elif e.conversion == ord("s"):
            v = str(v)
        elif e.conversion == ord("a"):
            v = ascii(v)
        spec = self.eval(e.format_spec, env, mod) if e.format_spec is not None else ""
        try:
            return format(v, spec)
        except Exception:
            return str(v)

    def e_BinOp(self, e, env, mod):
        return _binop(e.op, self.eval(e.left, env, mod), self.eval(e.right, env, mod))

    def e_UnaryOp(self, e, env, mod):
        v = self.eval(e.operand, env, mod)
        if isinstance(e.op, ast.Not):
            if isinstance(v, T):
                return T(z3.Not(v.e)) if v.is_bool() else T(v.e == 0)
            return not self.truth(v)
        if isinstance(e.op, ast.USub):
            return -v
        if isinstance(e.op, ast.UAdd):
            return +v
        if isinstance(e.op, ast.Invert):
            return ~v
        raise Undecided("unary op")

    def e_BoolOp(self, e, env, mod):
        is_and = isinstance(e.op, ast.And)
        v = None
        for x in e.values:
            v = self.eval(x, env, mod)
            t = self.truth(v)
            if is_and and not t:
                return v
            if not is_and and t:
                return v
        return v

    def e_Compare(self, e, env, mod):
        left = self.eval(e.left, env, mod)
        result = True
        for op, rhs in zip(e.ops, e.comparators):
            right = self.eval(rhs, env, mod)
            r = _compare(op, left, right)
            if len(e.ops) == 1:
                return r
            if not self.truth(r):
                return r
            result = r
            left = right
        return result

    def e_IfExp(self, e, env, mod):
        if self.truth(self.eval(e.test, env, mod)):
            return self.eval(e.body, env, mod)
        return self.eval(e.orelse, env, mod)

    def e_Lambda(self, e, env, mod):
        return self.make_closure(e, env, mod)

    def e_Attribute(self, e, env, mod):
        obj = self.eval(e.value, env, mod)
        return getattr(obj, _mangle(e.attr, env))

    def e_Subscript(self, e, env, mod):
        obj = self.eval(e.value, env, mod)
        key = self.eval_slice(e.slice, env, mod)
        return obj[key]

    def eval_slice(self, sl, env, mod):
        if isinstance(sl, ast.Slice):
            return slice(
                self.eval(sl.lower, env, mod) if sl.lower is not None else None,
                self.eval(sl.upper, env, mod) if sl.upper is not None else None,
                self.eval(sl.step, env, mod) if sl.step is not None else None,
            )
        if isinstance(sl, ast.Tuple):
            out = []
            for x in sl.elts:
                if isinstance(x, ast.Starred):
                    out.extend(_iterate(self.eval(x.value, env, mod)))
                elif isinstance(x, ast.Slice):
                    out.append(self.eval_slice(x, env, mod))
                else:
                    out.append(self.eval(x, env, mod))
            return tuple(out)
        return self.eval(sl, env, mod)

    def e_Slice(self, e, env, mod):
        return self.eval_slice(e, env, mod)

    def e_Starred(self, e, env, mod):
        raise Undecided("starred expression outside call/display")

    def e_Call(self, e, env, mod):
        f = self.eval(e.func, env, mod)
        if f is builtins.super and not e.args and not e.keywords:
            return self._zero_arg_super(env, mod)
        args = []
        for a in e.args:
            if isinstance(a, ast.Starred):
                args.extend(_iterate(self.eval(a.value, env, mod)))
            else:
                args.append(self.eval(a, env, mod))
        kwargs = {}
        for k in e.keywords:
            if k.arg is None:
                d = self.eval(k.value, env, mod)
                for kk in d.keys() if hasattr(d, "keys") else d:
                    if kk in kwargs:
                        raise TypeError(f"{_fname(f)}() got multiple values for keyword argument {kk!r}")
                    if not isinstance(kk, str):
                        raise TypeError("keywords must be strings")
                    kwargs[kk] = d[kk]
            else:
                if k.arg in kwargs:
                    raise TypeError(f"{_fname(f)}() got multiple values for keyword argument {k.arg!r}")
                kwargs[k.arg] = self.eval(k.value, env, mod)
        if isinstance(f, types.BuiltinMethodType) and isinstance(getattr(f, "__self__", None), (list, dict, set)):
            from .frame import MUTATORS

            if f.__name__ in MUTATORS:
                self.store_hook(f.__self__, "." + f.__name__ + "()", None)
        ov = NATIVE_OVERRIDES.get(f) if isinstance(f, (types.BuiltinFunctionType, types.FunctionType)) else None
        if ov is not None and any(isinstance(a, (T, SymArray)) for a in args):
            return ov(*args, **kwargs)
        return f(*args, **kwargs)

    def _zero_arg_super(self, env, mod):
        """super() inside a method of a module-level class: class by name, instance = first parameter"""
        fe = env
        while fe is not None and fe.kind != "function":
            fe = fe.parent
        if fe is None or not env.cls:
            raise RuntimeError("super(): no arguments")
        cls = mod._env.vars.get(env.cls)
        if not isinstance(cls, type):
            raise Undecided("super() in a class that is not defined at module level")
        names = [k for k in fe.vars if k != "__qualprefix__"]
        if not names:
            raise RuntimeError("super(): no arguments")
        return builtins.super(cls, fe.vars[names[0]])

    # comprehensions
    def _comp(self, gens, env, mod, emit):
        def rec(i, cenv):
            if i == len(gens):
                emit(cenv)
                return
            g = gens[i]
            it = self.eval(g.iter, cenv if i else env, mod)
            if isinstance(it, SymRange) or hasattr(it, "pyvc_symbolic_iter"):
                raise Undecided("comprehension over a symbolic-length iterable")
            for v in _iterate(it):
                self.assign(g.target, v, cenv, mod)
                if all(self.truth(self.eval(c, cenv, mod)) for c in g.ifs):
                    rec(i + 1, cenv)

        cenv = Env(env, kind="comp")
        rec(0, cenv)

    def e_ListComp(self, e, env, mod):
        out = []
        self._comp(e.generators, env, mod, lambda ce: out.append(self.eval(e.elt, ce, mod)))
        return out

    def e_SetComp(self, e, env, mod):
        out = set()
        self._comp(e.generators, env, mod, lambda ce: out.add(self.eval(e.elt, ce, mod)))
        return out

    def e_GeneratorExp(self, e, env, mod):
        out = []
        self._comp(e.generators, env, mod, lambda ce: out.append(self.eval(e.elt, ce, mod)))
        return iter(out)

    def e_DictComp(self, e, env, mod):
        out = {}

        def emit(ce):
            k = self.eval(e.key, ce, mod)
            out[k] = self.eval(e.value, ce, mod)

        self._comp(e.generators, env, mod, emit)
        return out


# ----------------------------------------------------------------------------- helpers
def _fname(f):
    return getattr(f, "__name__", type(f).__name__)


def _qual_prefix(env):
    e = env
    while e is not None:
        if "__qualprefix__" in e.vars:
            return e.vars["__qualprefix__"]
        e = e.parent
    return ""


def _mangle(attr, env):
    if attr.startswith("__") and not attr.endswith("__") and env.cls:
        return f"_{env.cls.lstrip('_')}{attr}"
    return attr


def _as_load(t):
    if isinstance(t, ast.Name):
        return ast.Name(id=t.id, ctx=ast.Load())
    if isinstance(t, ast.Subscript):
        return ast.Subscript(value=t.value, slice=t.slice, ctx=ast.Load())
    if isinstance(t, ast.Attribute):
        return ast.Attribute(value=t.value, attr=t.attr, ctx=ast.Load())
    raise Undecided("augmented assignment target")


def _iterate(v):
    if isinstance(v, SymArray):
        return list(v)
    if isinstance(v, T):
        raise TypeError("iteration over a 0-d array")
    return v


import operator as _op  # noqa: E402

_INPLACE = {
    ast.Add: _op.iadd,
    ast.Sub: _op.isub,
    ast.Mult: _op.imul,
    ast.Div: _op.itruediv,
    ast.FloorDiv: _op.ifloordiv,
    ast.Mod: _op.imod,
    ast.Pow: _op.ipow,
    ast.BitAnd: _op.iand,
    ast.BitOr: _op.ior,
    ast.BitXor: _op.ixor,
}

_BIN = {
    ast.Add: lambda a, b: a + b,
    ast.Sub: lambda a, b: a - b,
    ast.Mult: lambda a, b: a * b,
    ast.Div: lambda a, b: a / b,
    ast.FloorDiv: lambda a, b: a // b,
    ast.Mod: lambda a, b: a % b,
    ast.Pow: lambda a, b: a**b,
    ast.BitAnd: lambda a, b: a & b,
    ast.BitOr: lambda a, b: a | b,
    ast.BitXor: lambda a, b: a ^ b,
    ast.MatMult: lambda a, b: a @ b,
}


def _binop(op, a, b):
    f = _BIN.get(type(op))
    if f is None:
        raise Undecided(f"binary operator {type(op).__name__}")
    if isinstance(op, ast.Div) and not isinstance(a, (T, SymArray)) and isinstance(b, T):
        pass
    if isinstance(op, (ast.Div, ast.FloorDiv, ast.Mod)) and isinstance(b, T) and not isinstance(a, SymArray):
        # Python scalar division: ZeroDivisionError is a reachable failure unless excluded
        if has_ctx() and cur().memo.get("python_scalars_div_check", True):
            c = cur()
            if not c.memo.get("in_vmap"):
                c.prove_then_assume("division-by-zero", b.e != 0, "safety")
    return f(a, b)


def _compare(op, a, b):
    if isinstance(op, ast.Eq):
        return a == b
    if isinstance(op, ast.NotEq):
        return a != b
    if isinstance(op, ast.Lt):
        return a < b
    if isinstance(op, ast.LtE):
        return a <= b
    if isinstance(op, ast.Gt):
        return a > b
    if isinstance(op, ast.GtE):
        return a >= b
    if isinstance(op, ast.Is):
        return a is b
    if isinstance(op, ast.IsNot):
        return a is not b
    if isinstance(op, ast.In):
        return _contains(b, a)
    if isinstance(op, ast.NotIn):
        r = _contains(b, a)
        return (not r) if isinstance(r, bool) else T(z3.Not(r.e))
    raise Undecided("comparison operator")


def _contains(container, item):
    if hasattr(container, "pyvc_contains"):
        return container.pyvc_contains(item)
    return item in container
