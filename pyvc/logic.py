"""Mode-agnostic logic helpers for contracts: the same contract text is evaluated over z3 terms
(proof) and over concrete Python/numpy values (replay of counterexamples, CPython differential)."""

from __future__ import annotations

import itertools

import z3

from .values import SymArray, T, as_bool, conc, lift, zdim


def _sym(*xs):
    return any(isinstance(x, (T, z3.ExprRef)) for x in xs)


def _b(x):
    if isinstance(x, T):
        return as_bool(x)
    if isinstance(x, z3.ExprRef):
        return x
    return z3.BoolVal(bool(x))


def And(*xs):
    xs = [x for x in xs]
    if _sym(*xs):
        return T(z3.And(*[_b(x) for x in xs])) if xs else True
    return all(bool(x) for x in xs)


def Or(*xs):
    if _sym(*xs):
        return T(z3.Or(*[_b(x) for x in xs]))
    return any(bool(x) for x in xs)


def Not(x):
    if _sym(x):
        return T(z3.Not(_b(x)))
    return not bool(x)


def Implies(a, b):
    if _sym(a, b):
        return T(z3.Implies(_b(a), _b(b)))
    return (not bool(a)) or bool(b)


def Iff(a, b):
    if _sym(a, b):
        return T(_b(a) == _b(b))
    return bool(a) == bool(b)


def ite(c, a, b):
    if _sym(c):
        from .values import _num_pair

        x, y = lift(a), lift(b)
        if not (z3.is_bool(x) and z3.is_bool(y)):
            x, y = _num_pair(x, y)
        return T(z3.If(_b(c), x, y))
    return a if c else b


def eq(a, b):
    """exact equality (floats compared exactly in concrete mode: values are copies, not recomputed)"""
    if _sym(a, b):
        return T(lift(a) == lift(b)) if not isinstance(a == b, T) else (a == b)
    return a == b


def lex_lt(p, q):
    if _sym(*p, *q):
        from .values import lex_lt as zl

        return T(zl([lift(x) for x in p], [lift(x) for x in q]))
    return tuple(p) < tuple(q)


def forall(ranges, pred, names="q"):
    """∀ index tuples in the box `ranges` (sizes): pred(tuple).  Symbolic sizes -> z3 quantifier;
    concrete sizes -> conjunction over all tuples."""
    sizes = [zdim(r) if not isinstance(r, int) else r for r in ranges]
    if all(isinstance(s, int) or conc(s) is not None for s in sizes) and not _force_quant():
        cs = [s if isinstance(s, int) else conc(s) for s in sizes]
        vals = [pred(tuple(ix)) for ix in itertools.product(*[range(c) for c in cs])]
        return And(*vals) if vals else True
    vs = [z3.Int(f"{names}{_next_id()}") for _ in sizes]
    body = pred(tuple(T(v) for v in vs))
    rng = z3.And(*[z3.And(v >= 0, v < zdim(s)) for v, s in zip(vs, sizes)])
    return T(z3.ForAll(vs, z3.Implies(rng, _b(body))))


def exists(ranges, pred, names="w"):
    sizes = [zdim(r) if not isinstance(r, int) else r for r in ranges]
    if all(isinstance(s, int) or conc(s) is not None for s in sizes) and not _force_quant():
        cs = [s if isinstance(s, int) else conc(s) for s in sizes]
        vals = [pred(tuple(ix)) for ix in itertools.product(*[range(c) for c in cs])]
        return Or(*vals) if vals else False
    vs = [z3.Int(f"{names}{_next_id()}") for _ in sizes]
    body = pred(tuple(T(v) for v in vs))
    rng = z3.And(*[z3.And(v >= 0, v < zdim(s)) for v, s in zip(vs, sizes)])
    return T(z3.Exists(vs, z3.And(rng, _b(body))))


_ID = [0]
_FORCE = [False]


def _next_id():
    _ID[0] += 1
    return _ID[0]


def _force_quant():
    return _FORCE[0]
