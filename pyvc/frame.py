"""Frame conditions (DESIGN 2.5, C09): objects that exist before a call are caller-owned; any store into
them during the call (item/attribute assignment, in-place operators, mutating methods) is recorded."""

from __future__ import annotations


class Frame:
    def __init__(self):
        self.protected = {}  # id -> (object, description)
        self.violations = []
        self.active = True

    def protect(self, obj, desc, depth=3):
        if isinstance(obj, (dict, list, set)):
            if id(obj) in self.protected:
                return
            self.protected[id(obj)] = (obj, desc)
            if depth > 0:
                vals = obj.values() if isinstance(obj, dict) else obj
                for i, v in enumerate(list(vals)[:64]):
                    self.protect(v, f"{desc}[..]", depth - 1)
        elif hasattr(obj, "__dict__") and not callable(obj) and depth > 0:
            self.protected[id(obj)] = (obj, desc)
            for kx, v in list(vars(obj).items())[:32]:
                self.protect(v, f"{desc}.{kx}", depth - 1)

    def on_store(self, obj, kind, key):
        if self.active and id(obj) in self.protected:
            self.violations.append(f"{kind} on {self.protected[id(obj)][1]}" + (f" [{key!r}]" if key is not None else ""))


MUTATORS = {"append", "extend", "insert", "pop", "remove", "clear", "update", "setdefault", "popitem", "add", "discard", "sort", "reverse", "__setitem__", "__delitem__"}
