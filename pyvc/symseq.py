"""Opaque objects and symbolic-length sequences for loops that are verified with invariants
(DESIGN 2.2): elements are terms of an uninterpreted sort `Obj`."""

from __future__ import annotations

import z3

from .ctx import Undecided, cur
from .values import T, lift

Obj = z3.DeclareSort("Obj")
NONE = z3.Const("None!obj", Obj)


def to_obj(v):
    if v is None:
        return NONE
    if isinstance(v, Opaque):
        return v.term
    raise Undecided(f"{type(v).__name__} used as an opaque object")


class Opaque:
    """an object about which only equality is known; calling it applies an uninterpreted function"""

    def __init__(self, term):
        self.term = term

    def __call__(self, *args, **kwargs):
        names = sorted(kwargs)
        arity = len(args) + len(names)
        f = z3.Function(f"apply{arity}!" + ",".join(names), Obj, *([Obj] * arity), Obj)
        return Opaque(f(self.term, *[to_obj(a) for a in args], *[to_obj(kwargs[n]) for n in names]))

    def __repr__(self):
        return f"Opaque({self.term})"

    def pyvc_truth(self):
        raise Undecided("truth value of an opaque object")


def obj_eq(a, b):
    return to_obj(a) == to_obj(b)


class SymList:
    """an input list of symbolic length: element i is the opaque term name(i)"""

    def __init__(self, name, length):
        self.name = name
        self.length = length
        self.f = z3.Function(name, z3.IntSort(), Obj)

    def pyvc_len(self):
        return self.length

    def __getitem__(self, i):
        if isinstance(i, slice):
            raise Undecided("slice of a symbolic list")
        c = cur()
        ie = lift(i)
        c.prove_then_assume(f"index-in-range:{self.name}", z3.And(ie >= 0, ie < lift(self.length)), "safety")
        return Opaque(self.f(ie))


class SymSeq:
    """a list built by a loop: length term and element function (functional updates on append)"""

    def __init__(self, length, get):
        self.length = length  # z3 Int
        self.get = get  # z3 Int -> Obj term

    @staticmethod
    def fresh(name):
        c = cur()
        nm = c.fresh(name)
        n = z3.Int(nm + ".len")
        f = z3.Function(nm, z3.IntSort(), Obj)
        c.assume(n >= 0, tag="domain")
        return SymSeq(n, lambda i: f(i))

    @staticmethod
    def of_list(xs):
        items = [to_obj(x) for x in xs]

        def get(i):
            out = NONE
            for p in range(len(items) - 1, -1, -1):
                out = z3.If(i == p, items[p], out)
            return out

        return SymSeq(z3.IntVal(len(items)), get)

    def pyvc_len(self):
        return T(self.length)

    def append(self, v):
        n, old, t = self.length, self.get, to_obj(v)
        self.get = lambda i: z3.If(i == n, t, old(i))
        self.length = n + 1

    def __getitem__(self, i):
        return Opaque(self.get(lift(i)))

    def __reversed__(self):
        n, g = self.length, self.get
        return SymSeq(n, lambda i: g(n - 1 - i))

    def pyvc_list(self):
        return SymSeq(self.length, self.get)
