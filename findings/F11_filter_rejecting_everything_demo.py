"""F11 (C12): a specification whose filter admits no (state, choice) combination in some period is accepted by
Model and by get_lcm_function's validation, and then fails with an internal IndexError instead of a clear
initialization error.  Run: /venv/bin/python findings/F11_filter_rejecting_everything_demo.py  (exit 1 = reproduced)"""
import sys
from dataclasses import dataclass

import jax.numpy as jnp

from lcm import DiscreteGrid, LinspaceGrid, Model
from lcm.entry_point import get_lcm_function


@dataclass
class Ret:
    working: int = 0
    retired: int = 1


def utility(consumption, retirement, lagged_retirement):
    return jnp.log(consumption) - 0.5 * (1 - retirement) + 0.0 * lagged_retirement


def next_wealth(wealth, consumption):
    return wealth - consumption


def next_lagged_retirement(retirement):
    return retirement


def consumption_constraint(consumption, wealth):
    return consumption <= wealth


def absorbing_retirement_filter(retirement, lagged_retirement, _period):
    # admits nothing from period 1 on (e.g. a typo in a period condition)
    return jnp.logical_and(jnp.logical_or(retirement == 1, lagged_retirement == 0), _period < 1)


model = Model(
    n_periods=3,
    functions={
        "utility": utility,
        "next_wealth": next_wealth,
        "next_lagged_retirement": next_lagged_retirement,
        "consumption_constraint": consumption_constraint,
        "absorbing_retirement_filter": absorbing_retirement_filter,
    },
    choices={"retirement": DiscreteGrid(Ret), "consumption": LinspaceGrid(start=1, stop=10, n_points=5)},
    states={"lagged_retirement": DiscreteGrid(Ret), "wealth": LinspaceGrid(start=1, stop=10, n_points=5)},
)
print("Model(...) accepted the specification")
try:
    solve, template = get_lcm_function(model, targets="solve", jit=False)
    template["beta"] = 0.9
    out = solve(template)
    print("solved:", [o.shape for o in out])
    sys.exit(0)
except Exception as e:  # noqa: BLE001
    print(f"internal error after acceptance: {type(e).__name__}: {e}")
    sys.exit(1)
