"""period-dependent filter: state 0 has no admissible choice in period 1 (but never reached);
V_1 lookup in period 0 must go through the indexer of period 1."""
import sys
import numpy as np, jax.numpy as jnp
from dataclasses import make_dataclass
from lcm import DiscreteGrid, LinspaceGrid, Model
from lcm.entry_point import get_lcm_function

S = make_dataclass("S", [("a", int, 0), ("b", int, 1), ("c", int, 2)])
C = make_dataclass("C", [("x", int, 0), ("y", int, 1)])

def utility(state, act, _period):
    return 1.0 * state + 0.3 * act + 0.0 * _period
def next_state(state, act):
    return jnp.clip(state + act, 1, 2)          # never leads into state 0
def act_filter(act, state, _period):
    return jnp.logical_or(_period == 0, state > 0)   # period 1: state 0 has no admissible choice

model = Model(n_periods=2, functions={"utility": utility, "next_state": next_state, "act_filter": act_filter},
              choices={"act": DiscreteGrid(C)}, states={"state": DiscreteGrid(S)})
solve, params = get_lcm_function(model, targets="solve")
params["beta"] = 0.9
V = [np.asarray(v) for v in solve(params)]
print("lcm V0", V[0], "V1", V[1])
# brute force
V1 = {s: max(1.0*s + 0.3*a for a in (0,1)) for s in (1,2)}
V0 = {s: max(1.0*s + 0.3*a + 0.9*V1[int(np.clip(s+a,1,2))] for a in (0,1)) for s in (0,1,2)}
print("ref V0", [V0[s] for s in (0,1,2)], "V1", [V1[s] for s in (1,2)])
ok = np.allclose(V[0], [V0[s] for s in (0,1,2)]) and np.allclose(V[1], [V1[s] for s in (1,2)])
print("OK" if ok else "MISMATCH"); sys.exit(0 if ok else 1)
